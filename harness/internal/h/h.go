// Package h is the common core of every check: run configuration taken from
// the environment, counters for evidence, known-finding witnesses, exclusion
// tags, replay files and the rapid driver.
package h

import (
	"encoding/binary"
	"encoding/json"
	"flag"
	"fmt"
	"hash/fnv"
	"os"
	"path/filepath"
	"sort"
	"strconv"
	"sync"
	"testing"

	"pgregory.net/rapid"
)

// Cfg is the run configuration taken from the environment set by /verif/check.
type Cfg struct {
	Property string
	Tier     string // quick | thorough
	Seed     uint64 // derived from VERIF_SEED and the shard, never 0
	Shard    int
	NShards  int
	StatsOut string // file the stats are flushed to
	ReplayIn string // replay file to run instead of the search
	Replays  string // directory for new replay files
	Findings string // known_findings.json
	Scale    float64
}

var (
	C   Cfg
	S   = &Stats{Classes: map[string]int64{}, Excluded: map[string]int64{}, Subs: map[string]*SubStats{}}
	mu  sync.Mutex
	fnd []Finding
	// enabled exclusion tags (open findings whose witness still fails).
	excl = map[string]bool{}
)

// Finding is one entry of known_findings.json.
type Finding struct {
	ID        string          `json:"id"`
	Property  string          `json:"property"`
	Sub       string          `json:"sub"`
	Status    string          `json:"status"` // open | fixed
	What      string          `json:"what"`
	Site      string          `json:"site"`
	Witness   json.RawMessage `json:"witness"`
	Exclusion string          `json:"exclusion,omitempty"`
	Commit    string          `json:"commit,omitempty"`
}

// Violation is a failing case, with the file that replays it.
type Violation struct {
	Sub    string `json:"sub"`
	Msg    string `json:"msg"`
	Replay string `json:"replay"`
}

// SubStats are the per-sub-property counters.
type SubStats struct {
	Evaluations int64 `json:"evaluations"`
	NonTrivial  int64 `json:"distinct_nontrivial"`
	Exhaustive  bool  `json:"exhaustive,omitempty"`
	Requested   int   `json:"rapid_checks_requested,omitempty"`
}

// Stats is what one test process reports to the driver.
type Stats struct {
	Property    string               `json:"property"`
	Evaluations int64                `json:"evaluations"`
	NonTrivial  int64                `json:"distinct_nontrivial"`
	Classes     map[string]int64     `json:"classes"`
	Excluded    map[string]int64     `json:"excluded"`
	Subs        map[string]*SubStats `json:"subs"`
	Samples     []any                `json:"samples"`
	Violations  []Violation          `json:"violations"`
	Known       []string             `json:"known"`
	Notes       []string             `json:"notes"`
	Rule        string               `json:"rule"`
	Assumptions []string             `json:"assumptions"`
	HashFile    string               `json:"hash_file"`
	hashes      map[uint64]struct{}
	sampleSub   map[string]int
}

// Main is called from TestMain of every check package.
func Main(m *testing.M, property string) {
	C.Property = property
	C.Tier = env("VERIF_TIER", "quick")
	seed, _ := strconv.ParseUint(env("VERIF_SEED", "1"), 10, 64)
	C.Shard, _ = strconv.Atoi(env("VERIF_SHARD", "0"))
	C.NShards, _ = strconv.Atoi(env("VERIF_NSHARDS", "1"))
	if C.NShards < 1 {
		C.NShards = 1
	}
	// rapid treats seed 0 as "random": remap. Shards get different seeds.
	C.Seed = (seed+1)*1000003 + uint64(C.Shard)*7919
	C.StatsOut = env("VERIF_STATS", "")
	C.ReplayIn = env("VERIF_REPLAY", "")
	C.Replays = env("VERIF_REPLAY_DIR", "/verif/replay/"+property)
	C.Findings = env("VERIF_FINDINGS", "/verif/known_findings.json")
	C.Scale, _ = strconv.ParseFloat(env("VERIF_SCALE", "1"), 64)
	if C.Scale <= 0 {
		C.Scale = 1
	}
	if FuzzCampaign() {
		// coordinator and workers of a native fuzz campaign count nothing and write no stats (fuzz.go)
		C.StatsOut = ""
	}
	S.Property = property
	S.hashes = map[uint64]struct{}{}
	S.sampleSub = map[string]int{}
	loadFindings()
	flag.Parse()
	_ = flag.Set("rapid.nofailfile", "true")
	_ = flag.Set("rapid.seed", strconv.FormatUint(C.Seed, 10))
	if flag.Lookup("rapid.shrinktime").Value.String() == "30s" {
		_ = flag.Set("rapid.shrinktime", "20s")
	}
	code := m.Run()
	Flush()
	if code != 0 && len(S.Violations) == 0 {
		// a test failed without recording a violation: harness trouble, not a verdict.
		os.Exit(3)
	}
	os.Exit(code)
}

func env(k, d string) string {
	if v := os.Getenv(k); v != "" {
		return v
	}
	return d
}

// Thorough reports the tier.
func Thorough() bool { return C.Tier == "thorough" }

// N picks a case count by tier, scaled by VERIF_SCALE.
func N(quick, thorough int) int {
	n := quick
	if Thorough() {
		n = thorough
	}
	n = int(float64(n) * C.Scale)
	if n < 1 {
		n = 1
	}
	return n
}

func loadFindings() {
	files := []string{C.Findings}
	// per-property fragments used while several checks are developed side by side; merged into the main file
	more, _ := filepath.Glob(filepath.Join(filepath.Dir(C.Findings), "known_findings.d", "*.json"))
	sort.Strings(more)
	files = append(files, more...)
	for _, path := range files {
		b, err := os.ReadFile(path)
		if err != nil {
			continue
		}
		var all []Finding
		if err = json.Unmarshal(b, &all); err != nil {
			fmt.Fprintf(os.Stderr, "%s: %s\n", path, err)
			os.Exit(3)
		}
		for _, f := range all {
			if f.Property == C.Property {
				fnd = append(fnd, f)
			}
		}
	}
}

// Excluded reports whether the exclusion tag of an open finding is active
// and counts the excluded draw.
func Excluded(tag string) bool {
	mu.Lock()
	defer mu.Unlock()
	if excl[tag] {
		S.Excluded[tag]++
		return true
	}
	return false
}

// ExclOn only tests the tag (no counting).
func ExclOn(tag string) bool {
	mu.Lock()
	defer mu.Unlock()
	return excl[tag]
}

// Result is what running one case through the oracle gives.
type Result struct {
	Err        string   // non-empty = the property is violated on this case
	NonTrivial bool     // by the property's stated rule
	Classes    []string // histogram labels
	Skip       string   // exclusion tag that removed the case ("" = not skipped)
	Evals      int      // number of evaluations this case stands for (default 1)
}

// Fail builds a failing result.
func Fail(format string, args ...any) *Result {
	return &Result{Err: fmt.Sprintf(format, args...)}
}

// Prop is one sub-property: a generator of JSON-serialisable cases and an
// oracle. Known-finding witnesses and replay files are cases in JSON.
type Prop[K any] struct {
	Name string
	Gen  func(*rapid.T) K
	Run  func(K) *Result
}

func hashOf(sub string, v any) uint64 {
	b, _ := json.Marshal(v)
	hh := fnv.New64a()
	hh.Write([]byte(sub))
	hh.Write([]byte{0})
	hh.Write(b)
	return hh.Sum64()
}

func sub(name string) *SubStats {
	ss := S.Subs[name]
	if ss == nil {
		ss = &SubStats{}
		S.Subs[name] = ss
	}
	return ss
}

// Account records a case and its result in the counters.
func Account(name string, c any, r *Result) {
	mu.Lock()
	defer mu.Unlock()
	n := int64(1)
	if r.Evals > 1 {
		n = int64(r.Evals)
	}
	ss := sub(name)
	S.Evaluations += n
	ss.Evaluations += n
	for _, cl := range r.Classes {
		S.Classes[cl]++
	}
	if r.Skip != "" {
		S.Excluded[r.Skip]++
		return
	}
	if r.NonTrivial {
		hv := hashOf(name, c)
		if _, has := S.hashes[hv]; !has {
			S.hashes[hv] = struct{}{}
			S.NonTrivial++
			ss.NonTrivial++
			if S.sampleSub[name] < 3 && len(S.Samples) < 24 {
				S.sampleSub[name]++
				S.Samples = append(S.Samples, map[string]any{"sub": name, "case": c})
			}
		}
	}
}

// Note adds a free-text note to the evidence.
func Note(format string, args ...any) {
	mu.Lock()
	defer mu.Unlock()
	S.Notes = append(S.Notes, fmt.Sprintf(format, args...))
}

// Rule states how cases are generated and what makes one non-trivial.
func Rule(s string) { S.Rule = s }

// Assume records an assumption / trusted base item for the evidence.
func Assume(s string) { S.Assumptions = append(S.Assumptions, s) }

// Class bumps a histogram label directly.
func Class(label string, n int64) {
	mu.Lock()
	defer mu.Unlock()
	S.Classes[label] += n
}

// SetExhaustive marks a sub-space as completely enumerated.
func SetExhaustive(name string) {
	mu.Lock()
	defer mu.Unlock()
	sub(name).Exhaustive = true
}

func writeReplay(name string, c any, msg string) string {
	_ = os.MkdirAll(C.Replays, 0o755)
	b, _ := json.MarshalIndent(map[string]any{"property": C.Property, "sub": name, "case": c, "msg": msg}, "", " ")
	path := filepath.Join(C.Replays, fmt.Sprintf("%s-%016x.json", name, hashOf(name, c)))
	_ = os.WriteFile(path, b, 0o644)
	return path
}

// Violate records a violation with its replay file.
func Violate(name string, c any, msg string) {
	path := writeReplay(name, c, msg)
	mu.Lock()
	S.Violations = append(S.Violations, Violation{Sub: name, Msg: msg, Replay: path})
	mu.Unlock()
	fmt.Printf("VIOLATION property=%s replay=%s\n", C.Property, path)
	fmt.Printf("  %s: %s\n", name, oneLine(msg, 600))
}

func oneLine(s string, max int) string {
	b := []byte(s)
	for i, c := range b {
		if c == '\n' {
			b[i] = ' '
		}
	}
	if len(b) > max {
		b = append(b[:max], "..."...)
	}
	return string(b)
}

// witnesses runs the known-finding witnesses of a sub-property through the
// oracle, prints KNOWN-FINDING lines, switches exclusions on and reports
// regressions of fixed findings. Returns false if a fixed witness failed.
func witnesses[K any](p Prop[K]) bool {
	ok := true
	for _, f := range fnd {
		if f.Sub != p.Name || len(f.Witness) == 0 {
			continue
		}
		var c K
		if err := json.Unmarshal(f.Witness, &c); err != nil {
			fmt.Fprintf(os.Stderr, "finding %s: bad witness: %s\n", f.ID, err)
			os.Exit(3)
		}
		r := safeRun(p, c)
		Account(p.Name, c, &Result{Classes: []string{"witness"}})
		switch {
		case f.Status == "open" && r.Err != "":
			line := fmt.Sprintf("KNOWN-FINDING: property=%s %s %s", C.Property, f.ID, f.What)
			if !quiet {
				fmt.Println(line)
			}
			mu.Lock()
			if !quiet {
				S.Known = append(S.Known, line)
			}
			if f.Exclusion != "" {
				excl[f.Exclusion] = true
			}
			mu.Unlock()
		case f.Status == "open":
			// no longer fails: search the region again, say nothing.
		case r.Err != "":
			Violate(p.Name, c, "regression of fixed finding "+f.ID+": "+r.Err)
			ok = false
		}
	}
	return ok
}

var tracePath = os.Getenv("VERIF_TRACE_CASE")

func safeRun[K any](p Prop[K], c K) (r *Result) {
	defer func() {
		if rec := recover(); rec != nil {
			r = Fail("harness panic: %v", rec)
		}
	}()
	if tracePath != "" {
		// crash attribution (driver re-run after a shard died of a go fatal error): the case about to run is on disk
		if b, err := json.Marshal(map[string]any{"sub": p.Name, "case": c, "property": C.Property}); err == nil {
			_ = os.WriteFile(tracePath, b, 0o644)
		}
	}
	r = p.Run(c)
	if r == nil {
		r = &Result{}
	}
	return
}

// RunProp runs witnesses, then (replay file | generated search) for one
// sub-property. n is the number of rapid cases.
func RunProp[K any](t *testing.T, p Prop[K], n int) {
	t.Helper()
	if C0 := C.ReplayIn; C0 != "" {
		replay(t, p)
		return
	}
	if !witnesses(p) {
		t.Fail()
		return
	}
	if p.Gen == nil || n <= 0 {
		return
	}
	var (
		last    K
		lastMsg string
		failed  bool
	)
	mu.Lock()
	sub(p.Name).Requested += n
	mu.Unlock()
	_ = flag.Set("rapid.checks", strconv.Itoa(n))
	t.Run(p.Name, func(t *testing.T) {
		defer func() {
			if t.Failed() {
				if !failed {
					// rapid itself failed (generator trouble): harness error, not a verdict.
					fmt.Fprintf(os.Stderr, "sub %s: rapid failed without a failing case\n", p.Name)
					return
				}
				Violate(p.Name, last, lastMsg)
			}
		}()
		rapid.Check(t, func(rt *rapid.T) {
			c := p.Gen(rt)
			r := safeRun(p, c)
			Account(p.Name, c, r)
			if r.Err != "" {
				last, lastMsg, failed = c, r.Err, true
				rt.Fatalf("%s", r.Err)
			}
		})
	})
}

// One runs a single enumerated (non-rapid) case through the oracle; returns
// false on violation. Used by exhaustive loops.
func One[K any](t *testing.T, p Prop[K], c K) bool {
	r := safeRun(p, c)
	Account(p.Name, c, r)
	if r.Err != "" {
		Violate(p.Name, c, r.Err)
		t.Fail()
		return false
	}
	return true
}

// Enumerate runs an exhaustive loop unless a replay is requested. It stops
// after maxViol violations.
func Enumerate[K any](t *testing.T, p Prop[K], each func(yield func(K) bool)) {
	if C.ReplayIn != "" {
		return
	}
	viol := 0
	complete := true
	each(func(c K) bool {
		if !One(t, p, c) {
			viol++
			if viol >= maxViol() {
				complete = false
				return false
			}
		}
		return true
	})
	if complete {
		SetExhaustive(p.Name)
	}
}

func maxViol() int {
	n, _ := strconv.Atoi(env("VERIF_MAXVIOL", "3"))
	if n < 1 {
		n = 3
	}
	return n
}

func replay[K any](t testing.TB, p Prop[K]) {
	b, err := os.ReadFile(C.ReplayIn)
	if err != nil {
		fmt.Fprintf(os.Stderr, "replay: %s\n", err)
		os.Exit(3)
	}
	var f struct {
		Sub  string          `json:"sub"`
		Case json.RawMessage `json:"case"`
	}
	if err = json.Unmarshal(b, &f); err != nil {
		fmt.Fprintf(os.Stderr, "replay: %s\n", err)
		os.Exit(3)
	}
	if f.Sub != p.Name {
		return
	}
	var c K
	if err = json.Unmarshal(f.Case, &c); err != nil {
		fmt.Fprintf(os.Stderr, "replay: %s\n", err)
		os.Exit(3)
	}
	r := safeRun(p, c)
	Account(p.Name, c, &Result{NonTrivial: true})
	Account(p.Name, "replay-marker", &Result{NonTrivial: true})
	if r.Err != "" {
		mu.Lock()
		S.Violations = append(S.Violations, Violation{Sub: p.Name, Msg: r.Err, Replay: C.ReplayIn})
		mu.Unlock()
		fmt.Printf("VIOLATION property=%s replay=%s\n  %s\n", C.Property, C.ReplayIn, oneLine(r.Err, 600))
		t.Fail()
	} else {
		fmt.Printf("replay %s: case passes\n", C.ReplayIn)
	}
}

// Flush writes the stats file for the driver.
func Flush() {
	if C.StatsOut == "" {
		return
	}
	mu.Lock()
	defer mu.Unlock()
	hs := make([]uint64, 0, len(S.hashes))
	for k := range S.hashes {
		hs = append(hs, k)
	}
	sort.Slice(hs, func(i, j int) bool { return hs[i] < hs[j] })
	S.HashFile = C.StatsOut + ".hashes"
	buf := make([]byte, 8*len(hs))
	for i, v := range hs {
		binary.LittleEndian.PutUint64(buf[i*8:], v)
	}
	_ = os.WriteFile(S.HashFile, buf, 0o644)
	b, _ := json.Marshal(S)
	_ = os.WriteFile(C.StatsOut, b, 0o644)
}
