// Package refclos is the reference model of class definitions used by check C12. It is written from the
// property statement only and shares no code with slip:
//
//	inherit(C)    = the direct superclasses of C in the order written, followed, for each direct superclass in
//	                that order, by the members of its inherit list that are not present yet
//	precedence(C) = C, inherit(C) [, standard-object, t]
//	slots(C)      = union of the slots of the classes in precedence(C); the initargs of a slot are the union of
//	                the initargs given for that slot name anywhere in precedence(C); its initform is the one of
//	                the first class in precedence(C) that gives one
//	reader/writer/accessor N on an instance of C = the slot of the first class in precedence(C) that declares N
//
// A World is the set of current definitions; defining a name again replaces its definition and every question
// is answered from the current definitions (so a redefinition is reflected in all subclasses).
package refclos

import "sort"

// Slot is one slot specifier of a defclass form.
type Slot struct {
	N  string   `json:"n"`            // slot name
	IA []string `json:"ia,omitempty"` // initargs (keyword names without the colon)
	IF int      `json:"if,omitempty"` // initform (an integer literal); 0 = no initform
	R  string   `json:"r,omitempty"`  // :reader name
	W  string   `json:"w,omitempty"`  // :writer name
	A  string   `json:"a,omitempty"`  // :accessor name
}

// Def is one defclass form.
type Def struct {
	C     string   `json:"c"`
	Sup   []string `json:"sup,omitempty"`
	Slots []Slot   `json:"slots,omitempty"`
}

// World holds the current definitions.
type World struct {
	defs map[string]Def
}

// New returns an empty world.
func New() *World { return &World{defs: map[string]Def{}} }

// Define adds or replaces a definition.
func (w *World) Define(d Def) { w.defs[d.C] = d }

// Defined reports whether a class has a definition.
func (w *World) Defined(c string) bool { _, ok := w.defs[c]; return ok }

// Def returns the current definition.
func (w *World) Def(c string) Def { return w.defs[c] }

// Names returns the defined class names, sorted.
func (w *World) Names() []string {
	out := make([]string, 0, len(w.defs))
	for k := range w.defs {
		out = append(out, k)
	}
	sort.Strings(out)
	return out
}

// Acyclic reports whether the superclass relation among the defined classes has no cycle.
func (w *World) Acyclic() bool {
	state := map[string]int{}
	var visit func(c string) bool
	visit = func(c string) bool {
		switch state[c] {
		case 1:
			return false
		case 2:
			return true
		}
		state[c] = 1
		for _, s := range w.defs[c].Sup {
			if s == c {
				return false
			}
			if w.Defined(s) && !visit(s) {
				return false
			}
		}
		state[c] = 2
		return true
	}
	for _, c := range w.Names() {
		if !visit(c) {
			return false
		}
	}
	return true
}

// Complete reports whether c and all its direct and indirect superclasses are defined.
func (w *World) Complete(c string) bool {
	seen := map[string]bool{}
	var visit func(c string) bool
	visit = func(c string) bool {
		if seen[c] {
			return true
		}
		seen[c] = true
		if !w.Defined(c) {
			return false
		}
		for _, s := range w.defs[c].Sup {
			if !visit(s) {
				return false
			}
		}
		return true
	}
	return visit(c)
}

// Closed reports whether every class is complete.
func (w *World) Closed() bool {
	for c := range w.defs {
		if !w.Complete(c) {
			return false
		}
	}
	return true
}

func has(list []string, s string) bool {
	for _, x := range list {
		if x == s {
			return true
		}
	}
	return false
}

// Inherit is the inherit list of a complete class in an acyclic world.
func (w *World) Inherit(c string) []string {
	var out []string
	d := w.defs[c]
	for _, s := range d.Sup {
		if !has(out, s) {
			out = append(out, s)
		}
	}
	for _, s := range d.Sup {
		for _, m := range w.Inherit(s) {
			if !has(out, m) {
				out = append(out, m)
			}
		}
	}
	return out
}

// Precedence is c followed by its inherit list (standard-object and t are left to the caller).
func (w *World) Precedence(c string) []string {
	return append([]string{c}, w.Inherit(c)...)
}

// Subclasses returns the defined classes (other than c) whose inherit list contains c; only complete classes
// are considered.
func (w *World) Subclasses(c string) []string {
	var out []string
	for _, k := range w.Names() {
		if k != c && w.Complete(k) && has(w.Inherit(k), c) {
			out = append(out, k)
		}
	}
	return out
}

// ESlot is an effective slot of a class.
type ESlot struct {
	Name     string
	Initargs []string // sorted, unique
	Initform int      // 0 = none
	Defs     int      // number of classes in the precedence list that define the slot
}

// Slots returns the effective slots of a complete class, sorted by name.
func (w *World) Slots(c string) []ESlot {
	idx := map[string]int{}
	var out []ESlot
	for _, k := range w.Precedence(c) {
		for _, s := range w.defs[k].Slots {
			i, ok := idx[s.N]
			if !ok {
				i = len(out)
				idx[s.N] = i
				out = append(out, ESlot{Name: s.N})
			}
			e := &out[i]
			e.Defs++
			for _, ia := range s.IA {
				if !has(e.Initargs, ia) {
					e.Initargs = append(e.Initargs, ia)
				}
			}
			if e.Initform == 0 && s.IF != 0 {
				e.Initform = s.IF
			}
		}
	}
	for i := range out {
		sort.Strings(out[i].Initargs)
	}
	sort.Slice(out, func(i, j int) bool { return out[i].Name < out[j].Name })
	return out
}

// Initargs returns all initargs valid for a complete class, sorted.
func (w *World) Initargs(c string) []string {
	var out []string
	for _, s := range w.Slots(c) {
		for _, ia := range s.Initargs {
			if !has(out, ia) {
				out = append(out, ia)
			}
		}
	}
	sort.Strings(out)
	return out
}

// Accessor kinds.
const (
	Reader   = "r"
	Writer   = "w"
	Accessor = "a"
)

func accName(s Slot, kind string) string {
	switch kind {
	case Reader:
		return s.R
	case Writer:
		return s.W
	}
	return s.A
}

// Accessors returns, for a complete class and an accessor kind, the map accessor-name -> slot name it acts on.
func (w *World) Accessors(c, kind string) map[string]string {
	out := map[string]string{}
	for _, k := range w.Precedence(c) {
		for _, s := range w.defs[k].Slots {
			if n := accName(s, kind); n != "" {
				if _, has := out[n]; !has {
					out[n] = s.N
				}
			}
		}
	}
	return out
}

// SharedInitarg reports whether some initarg names two different slots of the class.
func (w *World) SharedInitarg(c string) bool {
	seen := map[string]string{}
	for _, s := range w.Slots(c) {
		for _, ia := range s.Initargs {
			if o, ok := seen[ia]; ok && o != s.Name {
				return true
			}
			seen[ia] = s.Name
		}
	}
	return false
}

// MaxShadow returns the largest number of classes of one precedence list that define the same slot.
func (w *World) MaxShadow(c string) int {
	m := 0
	for _, s := range w.Slots(c) {
		if s.Defs > m {
			m = s.Defs
		}
	}
	return m
}
