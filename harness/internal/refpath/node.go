// Package refpath is the reference model of property C18: a JSON document
// model with its own text renderers (JSON and SEN) and reference parse, a
// comparer for Go any-trees, and a reference evaluator for a small JSONPath
// grammar (get/has/walk target sets, set, remove) on any-trees. It does not
// use ojg or slip.
package refpath

import (
	"encoding/json"
	"fmt"
	"math"
	"math/big"
	"sort"
	"strconv"
	"strings"
	"time"
	"unicode/utf8"
)

// Node is a JSON document (and, with the extra kinds, a plain Go value for the
// bridge check). It is the JSON-serialisable case format.
//
//	T: null true false int float str arr obj            (documents)
//	   time (S = RFC3339Nano)                            (set values, bridge)
//	   i8 i16 i32 i64 int u8 u16 u32 u64 uint f32 f64 bytes   (bridge only; S = literal)
type Node struct {
	T string   `json:"t"`
	S string   `json:"s,omitempty"`
	A []Node   `json:"a,omitempty"`
	K []string `json:"k,omitempty"`
}

// Big is a number of the document that needs more than int64/float64; Text is the literal.
type Big struct{ Text string }

// Wide says whether a numeric literal is outside what int64 / float64 hold
// exactly enough: the reference then accepts a textual carrier (json.Number or
// a string of the same decimal value) as well as a number.
func Wide(lit string) bool {
	digits, exp := sigDigits(lit)
	if !strings.ContainsAny(lit, ".eE") {
		return len(strings.TrimLeft(strings.TrimLeft(lit, "-"), "0")) >= 19
	}
	return digits > 17 || exp > 300 || exp < -300
}

func sigDigits(lit string) (n int, exp int) {
	mant := lit
	if i := strings.IndexAny(lit, "eE"); i >= 0 {
		mant = lit[:i]
		exp, _ = strconv.Atoi(lit[i+1:])
	}
	mant = strings.TrimLeft(mant, "-+")
	mant = strings.Replace(mant, ".", "", 1)
	mant = strings.TrimLeft(mant, "0")
	mant = strings.TrimRight(mant, "0")
	if exp < 0 {
		return len(mant), -exp
	}
	return len(mant), exp
}

// Value is the reference parse of the document to a Go any-tree: nil, bool,
// int64, float64, Big, string, time.Time, []any, map[string]any.
func (n Node) Value() any {
	switch n.T {
	case "null":
		return nil
	case "true":
		return true
	case "false":
		return false
	case "int":
		if !Wide(n.S) {
			v, err := strconv.ParseInt(n.S, 10, 64)
			if err == nil {
				return v
			}
		}
		return Big{n.S}
	case "float":
		if Wide(n.S) {
			return Big{n.S}
		}
		f, err := strconv.ParseFloat(n.S, 64)
		if err != nil || math.IsInf(f, 0) {
			return Big{n.S}
		}
		return f
	case "str":
		return n.S
	case "time":
		t, _ := time.Parse(time.RFC3339Nano, n.S)
		return t
	case "arr":
		out := make([]any, len(n.A))
		for i, e := range n.A {
			out[i] = e.Value()
		}
		return out
	case "obj":
		out := make(map[string]any, len(n.A))
		for i, e := range n.A {
			out[n.K[i]] = e.Value()
		}
		return out
	}
	panic("refpath: no document value for kind " + n.T)
}

// Depth of the document (scalar = 0).
func (n Node) Depth() int {
	d := 0
	for _, e := range n.A {
		if x := e.Depth() + 1; x > d {
			d = x
		}
	}
	if (n.T == "arr" || n.T == "obj") && d == 0 {
		d = 1
	}
	return d
}

// Walk calls fn for every node.
func (n Node) Walk(fn func(Node)) {
	fn(n)
	for _, e := range n.A {
		e.Walk(fn)
	}
}

// ---------------------------------------------------------------- rendering

// Style selects among equivalent spellings of the same document.
type Style struct {
	SEN    bool `json:"sen,omitempty"`    // SEN liberties: no commas, bare keys and words, single quotes
	Esc    int  `json:"esc,omitempty"`    // 0 raw UTF-8, 1 non-ASCII as \uXXXX (surrogate pairs), 2 everything as \uXXXX
	WS     int  `json:"ws,omitempty"`     // 0 compact, 1 spaces, 2 lines
	Single bool `json:"single,omitempty"` // SEN: single-quoted strings where possible
}

// Render the document as text.
func Render(n Node, st Style) string {
	var b strings.Builder
	render(&b, n, st, 0)
	return b.String()
}

func simpleWord(s string) bool {
	if s == "" || s == "true" || s == "false" || s == "null" || len(s) > 40 {
		return false
	}
	for i, c := range []byte(s) {
		switch {
		case c >= 'a' && c <= 'z', c >= 'A' && c <= 'Z', c == '_':
		case c >= '0' && c <= '9' && i > 0:
		default:
			return false
		}
	}
	return true
}

// Quote renders a string literal.
func Quote(s string, st Style) string {
	if st.SEN && st.Esc == 0 && simpleWord(s) {
		return s
	}
	q := byte('"')
	if st.SEN && st.Single && !strings.ContainsAny(s, `'\`) {
		q = '\''
	}
	var b strings.Builder
	b.WriteByte(q)
	for _, r := range s {
		switch {
		case st.Esc == 2:
			writeU(&b, r)
		case r == rune(q):
			b.WriteByte('\\')
			b.WriteByte(q)
		case r == '\\':
			b.WriteString(`\\`)
		case r == '\n':
			b.WriteString(`\n`)
		case r == '\t':
			b.WriteString(`\t`)
		case r == '\r':
			b.WriteString(`\r`)
		case r == '\b':
			b.WriteString(`\b`)
		case r == '\f':
			b.WriteString(`\f`)
		case r < 0x20:
			writeU(&b, r)
		case r >= 0x80 && st.Esc >= 1:
			writeU(&b, r)
		default:
			b.WriteRune(r)
		}
	}
	b.WriteByte(q)
	return b.String()
}

func writeU(b *strings.Builder, r rune) {
	if r >= 0x10000 {
		r -= 0x10000
		fmt.Fprintf(b, `\u%04x\u%04x`, 0xd800+(r>>10), 0xdc00+(r&0x3ff))
		return
	}
	fmt.Fprintf(b, `\u%04x`, r)
}

func render(b *strings.Builder, n Node, st Style, ind int) {
	nl := func(d int) {
		if st.WS == 2 {
			b.WriteByte('\n')
			b.WriteString(strings.Repeat("  ", d))
		}
	}
	sep := func() {
		if !st.SEN {
			b.WriteByte(',')
		}
		if st.WS == 1 || (st.SEN && st.WS == 0) {
			b.WriteByte(' ')
		}
	}
	switch n.T {
	case "null", "true", "false":
		b.WriteString(n.T)
	case "int", "float":
		b.WriteString(n.S)
	case "str":
		b.WriteString(Quote(n.S, st))
	case "arr":
		b.WriteByte('[')
		for i, e := range n.A {
			if i > 0 {
				sep()
			}
			nl(ind + 1)
			render(b, e, st, ind+1)
		}
		if len(n.A) > 0 {
			nl(ind)
		}
		b.WriteByte(']')
	case "obj":
		b.WriteByte('{')
		for i, e := range n.A {
			if i > 0 {
				sep()
			}
			nl(ind + 1)
			b.WriteString(Quote(n.K[i], st))
			b.WriteByte(':')
			if st.WS > 0 {
				b.WriteByte(' ')
			}
			render(b, e, st, ind+1)
		}
		if len(n.A) > 0 {
			nl(ind)
		}
		b.WriteByte('}')
	default:
		panic("refpath: cannot render kind " + n.T)
	}
}

// ---------------------------------------------------------------- comparing any-trees

func numRat(v any) (*big.Rat, bool) {
	switch t := v.(type) {
	case int64:
		return new(big.Rat).SetInt64(t), true
	case int:
		return new(big.Rat).SetInt64(int64(t)), true
	case float64:
		if math.IsInf(t, 0) || math.IsNaN(t) {
			return nil, false
		}
		return new(big.Rat).SetFloat64(t), true
	case Big:
		return litRat(t.Text)
	case json.Number:
		return litRat(string(t))
	}
	return nil, false
}

func litRat(s string) (*big.Rat, bool) {
	if _, exp := sigDigits(s); exp > 2000 || s == "" {
		return nil, false
	}
	return new(big.Rat).SetString(s)
}

// Conforms: does got (a tree produced by the code under test) represent the
// reference value want? Numbers are compared by value: an integer literal must
// come back exactly (int64, or for Wide literals a json.Number / string with
// the same decimal value); a float literal within 4 ulp. Returns "" or the
// first difference.
func Conforms(want, got any) string { return cmp(want, got, "$", true) }

// Same compares two trees of the code under test (or a model tree and an
// actual tree): same shape, same keys, strings equal, numbers equal by value
// where both are numbers (int64 1 = float64 1.0), a textual number carrier
// (json.Number) equals only another one of the same value - never a string.
func Same(want, got any) string { return cmp(want, got, "$", false) }

func cmp(want, got any, at string, lenient bool) string {
	bad := func() string { return fmt.Sprintf("at %s: expected %s, got %s", at, Show(want), Show(got)) }
	switch w := want.(type) {
	case nil:
		if got != nil {
			return bad()
		}
	case bool:
		if g, ok := got.(bool); !ok || g != w {
			return bad()
		}
	case string:
		if g, ok := got.(string); !ok || g != w {
			return bad()
		}
	case time.Time:
		if g, ok := got.(time.Time); !ok || !g.Equal(w) {
			return bad()
		}
	case int64, int, float64, Big, json.Number:
		wr, wok := numRat(w)
		var gr *big.Rat
		var gok bool
		switch g := got.(type) {
		case int64, int, float64:
			gr, gok = numRat(g)
			if _, carrier := want.(json.Number); carrier && !lenient {
				return bad()
			}
		case json.Number:
			_, wb := want.(Big)
			_, wn := want.(json.Number)
			if !(wn || (wb && lenient)) {
				return bad()
			}
			gr, gok = litRat(string(g))
		case string:
			if _, wb := want.(Big); !(wb && lenient) {
				return bad()
			}
			gr, gok = litRat(g)
		default:
			return bad()
		}
		if f, isf := want.(float64); isf && !wok {
			// non-finite: only the same non-finite float matches
			if g, ok := got.(float64); ok && (g == f || (math.IsNaN(g) && math.IsNaN(f))) {
				return ""
			}
			return bad()
		}
		if !wok || !gok {
			return bad()
		}
		if wr.Cmp(gr) == 0 {
			return ""
		}
		if lenient {
			// a float literal may be off by a few ulp; integers never
			wf, _ := wr.Float64()
			gf, isFloat := got.(float64)
			_, wIsInt := want.(int64)
			if wb, isBig := want.(Big); isBig && !strings.ContainsAny(wb.Text, ".eE") {
				wIsInt = true
			}
			if isFloat && !wIsInt && wf != 0 && math.Abs(gf-wf) <= 4*math.Abs(math.Nextafter(wf, math.Inf(1))-wf) {
				return ""
			}
		}
		return bad()
	case []any:
		g, ok := got.([]any)
		if !ok || len(g) != len(w) {
			return bad()
		}
		for i := range w {
			if d := cmp(w[i], g[i], at+"["+strconv.Itoa(i)+"]", lenient); d != "" {
				return d
			}
		}
	case map[string]any:
		g, ok := got.(map[string]any)
		if !ok || len(g) != len(w) {
			return bad()
		}
		for _, k := range Keys(w) {
			gv, has := g[k]
			if !has {
				return fmt.Sprintf("at %s: key %q missing in %s", at, k, Show(got))
			}
			if d := cmp(w[k], gv, at+"["+strconv.Quote(k)+"]", lenient); d != "" {
				return d
			}
		}
	default:
		return fmt.Sprintf("at %s: reference has unexpected type %T", at, want)
	}
	return ""
}

// Keys returns the sorted keys.
func Keys(m map[string]any) []string {
	ks := make([]string, 0, len(m))
	for k := range m {
		ks = append(ks, k)
	}
	sort.Strings(ks)
	return ks
}

// Show renders a tree with Go types visible (messages only).
func Show(v any) string {
	var b strings.Builder
	show(&b, v)
	s := b.String()
	if len(s) > 300 {
		s = s[:300] + "..."
	}
	return s
}

func show(b *strings.Builder, v any) {
	switch t := v.(type) {
	case nil:
		b.WriteString("null")
	case bool:
		fmt.Fprintf(b, "%v", t)
	case int64:
		fmt.Fprintf(b, "%d", t)
	case float64:
		fmt.Fprintf(b, "float(%s)", strconv.FormatFloat(t, 'g', -1, 64))
	case string:
		b.WriteString(strconv.QuoteToASCII(t))
	case Big:
		b.WriteString("big(" + t.Text + ")")
	case json.Number:
		b.WriteString("json.Number(" + string(t) + ")")
	case time.Time:
		b.WriteString("time(" + t.Format(time.RFC3339Nano) + ")")
	case []any:
		b.WriteByte('[')
		for i, e := range t {
			if i > 0 {
				b.WriteByte(' ')
			}
			show(b, e)
		}
		b.WriteByte(']')
	case map[string]any:
		b.WriteByte('{')
		for i, k := range Keys(t) {
			if i > 0 {
				b.WriteByte(' ')
			}
			b.WriteString(strconv.QuoteToASCII(k))
			b.WriteByte(':')
			show(b, t[k])
		}
		b.WriteByte('}')
	default:
		fmt.Fprintf(b, "%T(%v)", v, v)
	}
}

// Clone copies a tree deeply.
func Clone(v any) any {
	switch t := v.(type) {
	case []any:
		out := make([]any, len(t))
		for i, e := range t {
			out[i] = Clone(e)
		}
		return out
	case map[string]any:
		out := make(map[string]any, len(t))
		for k, e := range t {
			out[k] = Clone(e)
		}
		return out
	}
	return v
}

// Lossy maps a tree to what the native Lisp form can still tell apart: false
// and the empty containers become nil (Lisp has one nil), everything else is kept.
func Lossy(v any) any {
	switch t := v.(type) {
	case bool:
		if !t {
			return nil
		}
	case []any:
		if len(t) == 0 {
			return nil
		}
		out := make([]any, len(t))
		for i, e := range t {
			out[i] = Lossy(e)
		}
		return out
	case map[string]any:
		if len(t) == 0 {
			return nil
		}
		out := make(map[string]any, len(t))
		for k, e := range t {
			out[k] = Lossy(e)
		}
		return out
	}
	return v
}

// ValidUTF8 reports whether all strings of the document are valid UTF-8 without U+FFFD.
func ValidUTF8(s string) bool {
	return utf8.ValidString(s) && !strings.ContainsRune(s, utf8.RuneError)
}

// Canon is a complete canonical text of a tree (numbers by value), used to compare multisets of values.
func Canon(v any) string {
	var b strings.Builder
	canon(&b, v)
	return b.String()
}

func canon(b *strings.Builder, v any) {
	switch t := v.(type) {
	case int64, int, float64:
		if r, ok := numRat(t); ok {
			b.WriteString("n" + r.RatString())
		} else {
			fmt.Fprintf(b, "n%v", t)
		}
	case json.Number:
		b.WriteString("jn" + string(t))
	case []any:
		b.WriteByte('[')
		for i, e := range t {
			if i > 0 {
				b.WriteByte(',')
			}
			canon(b, e)
		}
		b.WriteByte(']')
	case map[string]any:
		b.WriteByte('{')
		for i, k := range Keys(t) {
			if i > 0 {
				b.WriteByte(',')
			}
			b.WriteString(strconv.Quote(k))
			b.WriteByte(':')
			canon(b, t[k])
		}
		b.WriteByte('}')
	case time.Time:
		b.WriteString("time(" + t.UTC().Format(time.RFC3339Nano) + ")")
	case string:
		b.WriteString(strconv.Quote(t))
	default:
		show(b, v)
	}
}
