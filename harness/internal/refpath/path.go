package refpath

import (
	"strconv"
	"strings"
)

// Frag is one fragment of a path of the reference grammar.
//
//	K: key (S) | idx (I, negative counts from the end) | wild | desc | union (U: key and idx members)
type Frag struct {
	K string `json:"k"`
	S string `json:"s,omitempty"`
	I int    `json:"i,omitempty"`
	U []Frag `json:"u,omitempty"`
}

// PStyle selects among equivalent spellings of a path.
type PStyle struct {
	Root    bool `json:"root,omitempty"`    // leading $
	Bracket bool `json:"bracket,omitempty"` // ['key'] instead of .key, [*] instead of .*
}

func dotKey(s string) bool { return simpleWord(s) }

func quoteKey(s string) string {
	return "'" + strings.NewReplacer(`\`, `\\`, `'`, `\'`).Replace(s) + "'"
}

// RenderPath spells the path in JSONPath syntax.
func RenderPath(fs []Frag, st PStyle) string {
	var b strings.Builder
	if st.Root {
		b.WriteByte('$')
	}
	afterDesc := false
	for i, f := range fs {
		first := i == 0 && !st.Root
		switch f.K {
		case "key":
			if dotKey(f.S) && !st.Bracket {
				if !first && !afterDesc {
					b.WriteByte('.')
				}
				b.WriteString(f.S)
			} else {
				b.WriteString("[" + quoteKey(f.S) + "]")
			}
		case "idx":
			b.WriteString("[" + strconv.Itoa(f.I) + "]")
		case "wild":
			if st.Bracket {
				b.WriteString("[*]")
			} else {
				if !first && !afterDesc {
					b.WriteByte('.')
				}
				b.WriteByte('*')
			}
		case "desc":
			b.WriteString("..")
		case "union":
			b.WriteByte('[')
			for j, m := range f.U {
				if j > 0 {
					b.WriteByte(',')
				}
				if m.K == "key" {
					b.WriteString(quoteKey(m.S))
				} else {
					b.WriteString(strconv.Itoa(m.I))
				}
			}
			b.WriteByte(']')
		}
		afterDesc = f.K == "desc"
	}
	return b.String()
}

// Simple: only keys and indices (a path that can denote at most one location).
func Simple(fs []Frag) bool {
	for _, f := range fs {
		if f.K != "key" && f.K != "idx" {
			return false
		}
	}
	return true
}

// Loc is a concrete location: steps are string (key) or int (index >= 0).
type Loc []any

// Key is a canonical text for a location.
func (l Loc) Key() string {
	var b strings.Builder
	b.WriteByte('$')
	for _, s := range l {
		switch t := s.(type) {
		case string:
			b.WriteString("[" + strconv.Quote(t) + "]")
		case int:
			b.WriteString("[" + strconv.Itoa(t) + "]")
		}
	}
	return b.String()
}

func (l Loc) with(s any) Loc {
	out := make(Loc, len(l)+1)
	copy(out, l)
	out[len(l)] = s
	return out
}

// At returns the value at a location.
func At(tree any, l Loc) (any, bool) {
	cur := tree
	for _, s := range l {
		switch t := s.(type) {
		case string:
			m, ok := cur.(map[string]any)
			if !ok {
				return nil, false
			}
			if cur, ok = m[t]; !ok {
				return nil, false
			}
		case int:
			a, ok := cur.([]any)
			if !ok || t < 0 || t >= len(a) {
				return nil, false
			}
			cur = a[t]
		}
	}
	return cur, true
}

// Eval returns the locations the path denotes in tree, in document order (keys sorted).
// A location may be listed more than once only if a union names it twice.
func Eval(tree any, fs []Frag) []Loc {
	var out []Loc
	eval(tree, Loc{}, fs, &out)
	return out
}

func child(node any, f Frag) (any, any, bool) {
	switch f.K {
	case "key":
		if m, ok := node.(map[string]any); ok {
			if v, has := m[f.S]; has {
				return v, f.S, true
			}
		}
	case "idx":
		if a, ok := node.([]any); ok {
			i := f.I
			if i < 0 {
				i += len(a)
			}
			if i >= 0 && i < len(a) {
				return a[i], i, true
			}
		}
	}
	return nil, nil, false
}

func eachChild(node any, fn func(step any, v any)) {
	switch t := node.(type) {
	case map[string]any:
		for _, k := range Keys(t) {
			fn(k, t[k])
		}
	case []any:
		for i, v := range t {
			fn(i, v)
		}
	}
}

func eval(node any, at Loc, fs []Frag, out *[]Loc) {
	if len(fs) == 0 {
		*out = append(*out, at)
		return
	}
	f, rest := fs[0], fs[1:]
	switch f.K {
	case "key", "idx":
		if v, step, ok := child(node, f); ok {
			eval(v, at.with(step), rest, out)
		}
	case "wild":
		eachChild(node, func(step any, v any) { eval(v, at.with(step), rest, out) })
	case "union":
		for _, m := range f.U {
			if v, step, ok := child(node, m); ok {
				eval(v, at.with(step), rest, out)
			}
		}
	case "desc":
		var down func(n any, l Loc)
		down = func(n any, l Loc) {
			eval(n, l, rest, out)
			eachChild(n, func(step any, v any) { down(v, l.with(step)) })
		}
		down(node, at)
	}
}

// Locs lists every location of the tree (root first).
func Locs(tree any) []Loc {
	return Eval(tree, []Frag{{K: "desc"}})
}

// Related: is the existing location l (of tree) an ancestor-or-self of a
// location the path could denote or create, or inside one? Everything else is
// disjoint from the path: a set or remove through the path must leave it alone.
func Related(tree any, l Loc, fs []Frag) bool { return related(tree, l, fs) }

func related(node any, steps Loc, fs []Frag) bool {
	if len(steps) == 0 || len(fs) == 0 {
		return true
	}
	s := steps[0]
	next, _ := At(node, Loc{s})
	f := fs[0]
	match := func(m Frag) bool {
		switch m.K {
		case "key":
			k, ok := s.(string)
			return ok && k == m.S
		case "idx":
			i, ok := s.(int)
			if !ok {
				return false
			}
			want := m.I
			if a, isArr := node.([]any); isArr && want < 0 {
				want += len(a)
			}
			return i == want
		}
		return false
	}
	switch f.K {
	case "key", "idx":
		return match(f) && related(next, steps[1:], fs[1:])
	case "wild":
		return related(next, steps[1:], fs[1:])
	case "union":
		for _, m := range f.U {
			if match(m) && related(next, steps[1:], fs[1:]) {
				return true
			}
		}
		return false
	case "desc":
		return related(node, steps, fs[1:]) || related(next, steps[1:], fs)
	}
	return false
}

// SetSimple is the reference set for a simple path (keys and indices) in the
// cases where the result is fixed without reference to any implementation:
// every step exists (the last key may be new in an existing map), or the
// missing tail consists of keys only (maps are created). ok=false: the model
// does not decide (index outside the array, a scalar in the way, an array to
// be created, a root that is not a container).
func SetSimple(tree any, fs []Frag, v any) (out any, ok bool) {
	if len(fs) == 0 || !Simple(fs) {
		return nil, false
	}
	out = Clone(tree)
	cur := out
	for i, f := range fs {
		last := i == len(fs)-1
		switch f.K {
		case "key":
			m, isMap := cur.(map[string]any)
			if !isMap {
				return nil, false
			}
			if last {
				m[f.S] = Clone(v)
				return out, true
			}
			nxt, has := m[f.S]
			if !has {
				for _, r := range fs[i+1:] {
					if r.K != "key" {
						return nil, false
					}
				}
				nm := map[string]any{}
				m[f.S] = nm
				cur = nm
				continue
			}
			cur = nxt
		case "idx":
			a, isArr := cur.([]any)
			if !isArr {
				return nil, false
			}
			j := f.I
			if j < 0 {
				j += len(a)
			}
			if j < 0 || j >= len(a) {
				return nil, false
			}
			if last {
				a[j] = Clone(v)
				return out, true
			}
			cur = a[j]
		}
		switch cur.(type) {
		case map[string]any, []any:
		default:
			return nil, false
		}
	}
	return nil, false
}

// Removable: the last fragment names children (key, idx, wild, union) so a remove is defined.
func Removable(fs []Frag) bool {
	if len(fs) == 0 {
		return false
	}
	return fs[len(fs)-1].K != "desc"
}

// Remove is the reference remove: every denoted location is taken out of its
// parent; array elements behind a removed one move up.
func Remove(tree any, fs []Frag) any {
	gone := map[string]bool{}
	for _, l := range Eval(tree, fs) {
		gone[l.Key()] = true
	}
	return rebuild(tree, Loc{}, gone)
}

func rebuild(node any, at Loc, gone map[string]bool) any {
	switch t := node.(type) {
	case map[string]any:
		out := make(map[string]any, len(t))
		for k, v := range t {
			l := at.with(k)
			if gone[l.Key()] {
				continue
			}
			out[k] = rebuild(v, l, gone)
		}
		return out
	case []any:
		out := make([]any, 0, len(t))
		for i, v := range t {
			l := at.with(i)
			if gone[l.Key()] {
				continue
			}
			out = append(out, rebuild(v, l, gone))
		}
		return out
	}
	return node
}

// Outermost drops the locations that lie inside another location of the list.
func Outermost(ls []Loc) []Loc {
	keys := map[string]bool{}
	for _, l := range ls {
		keys[l.Key()] = true
	}
	var out []Loc
	for _, l := range ls {
		inside := false
		for n := 0; n < len(l); n++ {
			if keys[l[:n].Key()] {
				inside = true
				break
			}
		}
		if !inside {
			out = append(out, l)
		}
	}
	return out
}
