// Package refpkg is the reference model of package visibility used by check
// C13. It keeps only the graph (who uses whom), each package's own
// definitions and its export marks, and recomputes from scratch what a name
// resolves to. Nothing is cached or copied between packages, so a history
// cannot leave anything stale in the model.
package refpkg

import "sort"

// Export marks.
const (
	No      = 0
	Yes     = 1
	Unknown = 2 // after (f)makunbound of an exported name: CL keeps the mark, slip drops it; the property says neither
)

// Op is one step of a history. A is the package that is acted upon (it is the
// current package when the step runs, unless Arg is set: then A is passed as
// the optional package argument from whatever package is current). Q is the
// other package of use/unuse, N the name.
type Op struct {
	K   string `json:"k"`
	A   int    `json:"a"`
	Q   int    `json:"q,omitempty"`
	N   string `json:"n,omitempty"`
	Arg bool   `json:"arg,omitempty"`
}

// Cell is one definition (a variable binding or a function); Val is the unique token it holds/returns.
type Cell struct {
	Owner int
	Name  string
	Val   string
}

// Pkg is one user package.
type Pkg struct {
	Uses []int
	Def  map[string]*Cell
	Exp  map[string]int
}

// World is the whole model state.
type World struct {
	P   []*Pkg
	Cur int // current package (index), -1 = the neutral package
	// Absent: packages that do not exist yet; a defpkg step creates one (Q = bit mask of the packages it uses,
	// N = the exported names separated by commas)
	Absent map[int]bool
}

// New makes n empty packages that use nothing (but CL).
func New(n int) *World {
	w := &World{Cur: -1}
	for i := 0; i < n; i++ {
		w.P = append(w.P, &Pkg{Def: map[string]*Cell{}, Exp: map[string]int{}})
	}
	return w
}

// SplitNames splits the comma separated names of a defpkg step.
func SplitNames(s string) (out []string) {
	start := 0
	for i := 0; i <= len(s); i++ {
		if i == len(s) || s[i] == ',' {
			if start < i {
				out = append(out, s[start:i])
			}
			start = i + 1
		}
	}
	return
}

// IsFn tells the name space of a name: f, g are functions, everything else a variable.
func IsFn(name string) bool { return name == "f" || name == "g" }

func (w *World) uses(p, q int) bool {
	for _, u := range w.P[p].Uses {
		if u == q {
			return true
		}
	}
	return false
}

// reach lists the packages reachable from p through one or more use edges, p excluded, sorted.
func (w *World) reach(p int) []int {
	seen := map[int]bool{p: true}
	var out []int
	todo := append([]int(nil), w.P[p].Uses...)
	for len(todo) > 0 {
		q := todo[0]
		todo = todo[1:]
		if seen[q] {
			continue
		}
		seen[q] = true
		out = append(out, q)
		todo = append(todo, w.P[q].Uses...)
	}
	sort.Ints(out)
	return out
}

// View is what a name may resolve to from inside package p.
type View struct {
	Own     *Cell   // p's own definition: wins
	Direct  []*Cell // exported definitions of directly used packages
	Trans   []*Cell // exported definitions reachable only through two or more hops (don't-care)
	Pending bool    // a reachable package exports the name (or may export it) without defining it
	OwnMark bool    // p itself exports (or may export) the name without defining it
}

// View recomputes the resolution of name in p from the graph.
func (w *World) View(p int, name string) (v View) {
	v.Own = w.P[p].Def[name]
	v.OwnMark = v.Own == nil && w.P[p].Exp[name] != No
	for _, q := range w.reach(p) {
		pk := w.P[q]
		c := pk.Def[name]
		switch {
		case c != nil && pk.Exp[name] == Yes:
			if w.uses(p, q) {
				v.Direct = append(v.Direct, c)
			} else {
				v.Trans = append(v.Trans, c)
			}
		case c == nil && pk.Exp[name] != No:
			v.Pending = true
		}
	}
	return
}

// Exact gives the one outcome the property fixes, if it fixes one: the cell (nil = unbound/undefined).
func (v View) Exact() (c *Cell, ok bool) {
	switch {
	case v.Own != nil:
		return v.Own, true
	case len(v.Direct) == 1 && len(v.Trans) == 0:
		return v.Direct[0], true
	case len(v.Direct) == 0 && len(v.Trans) == 0:
		return nil, true
	}
	return nil, false
}

// Allows tells whether observing (bound, val) from inside the package is compatible with the property.
func (v View) Allows(bound bool, val string) bool {
	if v.Own != nil {
		return bound && val == v.Own.Val
	}
	if !bound {
		return len(v.Direct) == 0
	}
	for _, c := range v.Direct {
		if c.Val == val {
			return true
		}
	}
	for _, c := range v.Trans {
		if c.Val == val {
			return true
		}
	}
	return false
}

// Want renders the allowed outcomes for messages.
func (v View) Want() string {
	if v.Own != nil {
		return "own " + v.Own.Val
	}
	s := ""
	for _, c := range v.Direct {
		s += " " + c.Val
	}
	for _, c := range v.Trans {
		s += " (two-hop)" + c.Val
	}
	if len(v.Direct) == 0 {
		s += " unbound"
	}
	return "one of:" + s
}

// Qualified gives the expectation for p:name (private=false) and p::name (private=true) seen from a
// neutral package: must = the value that must be seen ("" with mustFail = a condition is required);
// if neither is fixed, any of the inherited candidates or a condition is acceptable.
func (w *World) Qualified(p int, name string, private bool) (must string, mustFail bool, free []string) {
	pk := w.P[p]
	if c := pk.Def[name]; c != nil {
		if private || pk.Exp[name] == Yes {
			return c.Val, false, nil
		}
		return "", true, nil
	}
	v := w.View(p, name)
	if len(v.Direct) == 0 && len(v.Trans) == 0 {
		return "", true, nil
	}
	for _, c := range v.Direct {
		free = append(free, c.Val)
	}
	for _, c := range v.Trans {
		free = append(free, c.Val)
	}
	return "", false, free
}

// Apply runs op on the model. It returns false, leaving the state unchanged, when the step is outside
// the sound domain (the property statement does not fix its effect, or Common Lisp would signal a
// name conflict whose resolution slip does not document).
func (w *World) Apply(op Op, token string) bool {
	if !w.apply(op, token) {
		return false
	}
	// An export mark on a name the package does not define but inherits: in Common Lisp the mark then
	// belongs to the inherited symbol or there is a name conflict; whether the package itself still
	// exports the name is left open.
	for p, pk := range w.P {
		for n, e := range pk.Exp {
			if e == Yes && pk.Def[n] == nil {
				if v := w.View(p, n); len(v.Direct)+len(v.Trans) > 0 {
					pk.Exp[n] = Unknown
				}
			}
		}
	}
	return true
}

func (w *World) apply(op Op, token string) bool {
	if op.A < 0 || op.A >= len(w.P) {
		return false
	}
	pk := w.P[op.A]
	if op.K == "defpkg" {
		if !w.Absent[op.A] {
			return false
		}
		for q := range w.P {
			if op.Q&(1<<q) != 0 {
				if q == op.A || w.Absent[q] {
					return false
				}
			}
		}
		delete(w.Absent, op.A)
		for q := range w.P {
			if op.Q&(1<<q) != 0 {
				pk.Uses = append(pk.Uses, q)
			}
		}
		for _, n := range SplitNames(op.N) {
			pk.Exp[n] = Yes
		}
		return true
	}
	if w.Absent[op.A] || ((op.K == "use" || op.K == "unuse") && w.Absent[op.Q]) {
		return false
	}
	switchCur := func() {
		if !op.Arg {
			w.Cur = op.A
		}
	}
	switch op.K {
	case "inpkg":
		w.Cur = op.A
		return true
	case "use":
		if op.Q == op.A || op.Q < 0 || op.Q >= len(w.P) {
			return false
		}
		switchCur()
		if !w.uses(op.A, op.Q) {
			pk.Uses = append(pk.Uses, op.Q)
		}
		return true
	case "unuse":
		if op.Q == op.A || op.Q < 0 || op.Q >= len(w.P) {
			return false
		}
		switchCur()
		for i, u := range pk.Uses {
			if u == op.Q {
				pk.Uses = append(pk.Uses[:i:i], pk.Uses[i+1:]...)
				break
			}
		}
		return true
	case "export":
		switchCur()
		pk.Exp[op.N] = Yes // (normalised to Unknown by Apply when the name is only inherited)
		return true
	case "unexport":
		switchCur()
		pk.Exp[op.N] = No
		return true
	}
	// the remaining steps act in the current package
	if op.Arg {
		return false
	}
	v := w.View(op.A, op.N)
	// A name a used package exports without having bound it is only a placeholder of that package (it
	// has no definition there): it resolves to nothing here, so defining it creates the current package's own.
	nothing := v.Own == nil && len(v.Direct) == 0 && len(v.Trans) == 0
	fresh := func() bool { // create an own definition
		if pk.Exp[op.N] == Unknown {
			return false
		}
		pk.Def[op.N] = &Cell{Owner: op.A, Name: op.N, Val: token}
		return true
	}
	switch op.K {
	case "setq":
		if IsFn(op.N) {
			return false
		}
		switch {
		case v.Own != nil:
			v.Own.Val = token
		case nothing:
			if !fresh() {
				return false
			}
		case len(v.Direct) == 1 && len(v.Trans) == 0:
			v.Direct[0].Val = token // the inherited variable is the owner's cell
		default:
			return false
		}
	case "defvar":
		if IsFn(op.N) {
			return false
		}
		switch {
		case v.Own != nil:
			// already bound: no effect
		case nothing:
			if !fresh() {
				return false
			}
		case len(v.Direct) == 1 && len(v.Trans) == 0:
			// bound through inheritance: no effect
		default:
			return false
		}
	case "defun":
		if !IsFn(op.N) {
			return false
		}
		switch {
		case v.Own != nil:
			v.Own.Val = token
		case nothing:
			if !fresh() {
				return false
			}
		default:
			return false // redefining an inherited function is left open
		}
	case "makunbound", "fmakunbound", "unintern":
		// (unintern 'x) is documented as "unbinds the symbol in the package": the variable, like makunbound
		if IsFn(op.N) != (op.K == "fmakunbound") {
			return false
		}
		switch {
		case v.Own != nil && len(v.Direct) == 0 && len(v.Trans) == 0:
			delete(pk.Def, op.N)
		case nothing:
			// no effect
		default:
			return false
		}
		if pk.Exp[op.N] == Yes {
			pk.Exp[op.N] = Unknown
		}
	default:
		return false
	}
	w.Cur = op.A
	return true
}
