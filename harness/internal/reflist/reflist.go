// Package reflist is the reference model of property C06: a pool of named
// lists of integers with Common Lisp list semantics, abstracted to
// (value, may-share group) per variable.
//
// The model never looks at slip. For every operation it says
//   - whether the operation is applicable in the current state (else it is skipped),
//   - the value that must be returned,
//   - which variables must print exactly as before,
//   - which variables have a value the language defines after the operation,
//   - which variables are *allowed* to differ because, by the rules of the language,
//     they may share cons cells with a destructively modified list (they are then
//     re-synchronised from the implementation: their content legitimately depends on
//     how much structure the implementation shares).
//
// Groups: two variables are in the same group when the language permits them to share
// cells. The empty list is NIL, owns no cell and is therefore always alone in its group.
package reflist

import (
	"fmt"
	"sort"
	"strconv"
	"strings"
)

// Op is one list operation on the pool. Which fields are used depends on F.
type Op struct {
	F string `json:"f"`
	T int    `json:"t"`           // variable that receives the result (where the operation has a list result)
	A int    `json:"a"`           // first list argument
	B int    `json:"b,omitempty"` // second list argument
	C int    `json:"c,omitempty"` // third list argument
	N int    `json:"n,omitempty"` // numeric parameter, reduced to the valid range in Plan
	M int    `json:"m,omitempty"` // second numeric parameter
	X int    `json:"x,omitempty"` // atom
}

// Kinds of operation, for statistics and the non-triviality rule.
const (
	Fresh     = "fresh"     // result shares with nothing
	Sharing   = "sharing"   // result shares (or may share) cells with an argument, nothing is modified
	Rebind    = "rebind"    // push/pop: a variable is rebound, no cell is modified
	PointMut  = "point"     // one car is replaced; the modified variable has a defined value
	Destroy   = "destroy"   // destructive, argument contents afterwards unspecified
	Extending = "extending" // destructive extension (nconc, add)
)

// Info describes an operation name.
type Info struct {
	Kind   string
	Lists  int  // number of list arguments (A, B, C)
	Stores bool // list result stored in T
}

// Ops is the table of modelled operations.
var Ops = map[string]Info{
	"cons": {Sharing, 1, true}, "list*": {Sharing, 1, true},
	"append": {Sharing, 2, true}, "append3": {Sharing, 3, true}, "append1": {Sharing, 1, true},
	"cdr": {Sharing, 1, true}, "rest": {Sharing, 1, true}, "nthcdr": {Sharing, 1, true},
	"last": {Sharing, 1, true}, "last1": {Sharing, 1, true}, "member": {Sharing, 1, true},
	"alias": {Sharing, 1, true},
	// remove* : CLHS lets the result share with the argument; the property statement asks for more ("the list it returns is
	// independent of its arguments", the only exception being tails by the language rules) and slip's remove is not
	// documented as destructive or sharing, so the results are fresh
	"remove": {Fresh, 1, true}, "remove-if": {Fresh, 1, true},
	"remove-duplicates": {Fresh, 1, true},
	// keyword variants: :from-end t :count 1 (the last match only), :start N :end M, remove-duplicates :from-end t
	"remove-fe": {Fresh, 1, true}, "remove-if-fe": {Fresh, 1, true}, "remove-se": {Fresh, 1, true},
	"remove-duplicates-fe": {Fresh, 1, true},
	"delete-fe":            {Destroy, 1, true}, "delete-se": {Destroy, 1, true},
	"butlast": {Fresh, 1, true}, "butlast1": {Fresh, 1, true}, "subseq": {Fresh, 1, true}, "subseq1": {Fresh, 1, true},
	"copy-list": {Fresh, 1, true}, "copy-seq": {Fresh, 1, true}, "reverse": {Fresh, 1, true}, "mapcar": {Fresh, 1, true},
	// cons / list called by mapcar over two lists (the caller hands the same argument vector to every call), read back
	// through car / cadr: the elements of the first / second list up to the shorter length
	"mapcons": {Fresh, 2, true}, "maplist2": {Fresh, 2, true},
	// a function that returns its &rest list, called by mapcar over two lists: every call must get a list of its own
	"maprest1": {Fresh, 2, true}, "maprest2": {Fresh, 2, true},
	"push": {Rebind, 1, true}, "pop": {Rebind, 1, false},
	"setcar": {PointMut, 1, false}, "setnth": {PointMut, 1, false}, "setelt": {PointMut, 1, false},
	"rplaca": {PointMut, 1, true},
	"rplacd": {Destroy, 2, true}, "nreverse": {Destroy, 1, true}, "sort": {Destroy, 1, true}, "stable-sort": {Destroy, 1, true},
	"delete": {Destroy, 1, true}, "delete-if": {Destroy, 1, true}, "delete-duplicates": {Destroy, 1, true},
	"nconc": {Extending, 2, true}, "add": {Extending, 1, true}, "add2": {Extending, 1, true},
	// nconc whose first argument is the empty end of another list, (nconc (cdr (last a)) b): the result is b,
	// a is not touched (the empty end is a slice into a's storage, with whatever room that storage has left)
	"nconc-end": {Extending, 2, true},
}

// Names returns the operation names in a fixed order.
func Names() []string {
	out := make([]string, 0, len(Ops))
	for k := range Ops {
		out = append(out, k)
	}
	sort.Strings(out)
	return out
}

// State is the model of the pool.
type State struct {
	Val  [][]int
	Grp  []int
	next int
}

// New builds a state of n variables, all empty.
func New(n int) *State {
	s := &State{Val: make([][]int, n), Grp: make([]int, n)}
	for i := range s.Grp {
		s.Grp[i] = s.fresh()
	}
	return s
}

func (s *State) fresh() int { s.next++; return s.next }

// Bind sets variable i to a fresh list.
func (s *State) Bind(i int, v []int) {
	s.Val[i] = cp(v)
	s.Grp[i] = s.fresh()
}

// GroupSize is the number of variables in the group of variable i.
func (s *State) GroupSize(i int) int {
	n := 0
	for _, g := range s.Grp {
		if g == s.Grp[i] {
			n++
		}
	}
	return n
}

// NonEmptyOutside counts the non-empty variables outside group g.
func (s *State) NonEmptyOutside(g int) int {
	n := 0
	for i, v := range s.Val {
		if s.Grp[i] != g && len(v) > 0 {
			n++
		}
	}
	return n
}

// Plan is what the model demands of one operation.
type Plan struct {
	Op   Op
	Kind string
	Skip string // not applicable in this state: the operation is not executed
	N, M int    // effective numeric parameters

	Atom    bool // the returned value is an atom (pop, setf)
	AtomNil bool // ... namely nil
	AtomVal int
	Res     []int // the returned list otherwise

	Store    bool          // T is bound to the returned list
	ResGroup int           // group T joins; 0 = a fresh group
	Mut      int           // group whose members may change; 0 = none
	Def      map[int][]int // variables (other than T) whose value after the operation is defined
	Point    bool          // point mutation: other members of Mut are unchanged or differ in exactly one position, now AtomVal/PointX
	PointX   int
	Merge    [2]int // groups to merge afterwards (0,0 = none)
}

func cp(v []int) []int { return append([]int(nil), v...) }

func cat(vs ...[]int) []int {
	var out []int
	for _, v := range vs {
		out = append(out, v...)
	}
	return out
}

func rev(v []int) []int {
	out := make([]int, len(v))
	for i, x := range v {
		out[len(v)-1-i] = x
	}
	return out
}

func filter(v []int, keep func(int) bool) []int {
	var out []int
	for _, x := range v {
		if keep(x) {
			out = append(out, x)
		}
	}
	return out
}

// dropLast removes the last element that matches (:from-end t :count 1).
func dropLast(v []int, match func(int) bool) []int {
	for i := len(v) - 1; i >= 0; i-- {
		if match(v[i]) {
			return append(append([]int(nil), v[:i]...), v[i+1:]...)
		}
	}
	return append([]int(nil), v...)
}

// filterRange filters the elements with index in [lo, hi) only.
func filterRange(v []int, lo, hi int, keep func(int) bool) []int {
	var out []int
	for i, x := range v {
		if i < lo || i >= hi || keep(x) {
			out = append(out, x)
		}
	}
	return out
}

// dedupFirst keeps the first occurrence of every element (remove-duplicates :from-end t).
func dedupFirst(v []int) []int {
	var out []int
	for i, x := range v {
		earlier := false
		for _, y := range v[:i] {
			if y == x {
				earlier = true
				break
			}
		}
		if !earlier {
			out = append(out, x)
		}
	}
	return out
}

// dedup keeps the last occurrence of every element (CL remove-duplicates without :from-end).
func dedup(v []int) []int {
	var out []int
	for i, x := range v {
		later := false
		for _, y := range v[i+1:] {
			if y == x {
				later = true
				break
			}
		}
		if !later {
			out = append(out, x)
		}
	}
	return out
}

func mod(n, m int) int {
	if m <= 0 {
		return 0
	}
	n %= m
	if n < 0 {
		n += m
	}
	return n
}

// grpOf: the group a result that shares with variable i belongs to (0 = fresh when the result or i is empty).
func (s *State) shareWith(i int, res []int) int {
	if len(res) == 0 || len(s.Val[i]) == 0 {
		return 0
	}
	return s.Grp[i]
}

// Plan computes the expectation for op in the current state.
func (s *State) Plan(op Op) *Plan {
	info, ok := Ops[op.F]
	p := &Plan{Op: op, Kind: info.Kind}
	if !ok {
		p.Skip = "unknown-op"
		return p
	}
	nv := len(s.Val)
	if op.A < 0 || op.A >= nv || op.T < 0 || op.T >= nv || op.B < 0 || op.B >= nv || op.C < 0 || op.C >= nv {
		p.Skip = "bad-index"
		return p
	}
	a := s.Val[op.A]
	b := s.Val[op.B]
	c := s.Val[op.C]
	la := len(a)
	p.Store = info.Stores
	switch op.F {
	case "cons":
		p.Res = cat([]int{op.X}, a)
		p.ResGroup = s.shareWith(op.A, p.Res)
	case "list*":
		p.Res = cat([]int{op.X, op.X + 1}, a)
		p.ResGroup = s.shareWith(op.A, p.Res)
	case "append1":
		p.Res = cp(a)
		p.ResGroup = s.shareWith(op.A, p.Res)
	case "append":
		p.Res = cat(a, b)
		p.ResGroup = s.shareWith(op.B, p.Res)
	case "append3":
		p.Res = cat(a, b, c)
		p.ResGroup = s.shareWith(op.C, p.Res)
	case "cdr", "rest":
		if la > 0 {
			p.Res = cp(a[1:])
		}
		p.ResGroup = s.shareWith(op.A, p.Res)
	case "nthcdr":
		p.N = mod(op.N, la+2)
		if p.N < la {
			p.Res = cp(a[p.N:])
		}
		p.ResGroup = s.shareWith(op.A, p.Res)
	case "last1":
		if la > 0 {
			p.Res = cp(a[la-1:])
		}
		p.ResGroup = s.shareWith(op.A, p.Res)
	case "last":
		p.N = mod(op.N, la+2)
		if p.N >= la {
			p.Res = cp(a)
		} else {
			p.Res = cp(a[la-p.N:])
		}
		p.ResGroup = s.shareWith(op.A, p.Res)
	case "member":
		for i, x := range a {
			if x == op.X {
				p.Res = cp(a[i:])
				break
			}
		}
		p.ResGroup = s.shareWith(op.A, p.Res)
	case "alias":
		p.Res = cp(a)
		p.ResGroup = s.shareWith(op.A, p.Res)
	case "remove":
		p.Res = filter(a, func(x int) bool { return x != op.X })
	case "remove-if":
		p.Res = filter(a, func(x int) bool { return x%2 != 0 })
	case "remove-duplicates":
		p.Res = dedup(a)
	case "remove-fe":
		p.Res = dropLast(a, func(x int) bool { return x == op.X })
	case "remove-if-fe":
		p.Res = dropLast(a, func(x int) bool { return x%2 == 0 })
	case "remove-se":
		p.N = mod(op.N, la+1)
		p.M = p.N + mod(op.M, la-p.N+1)
		p.Res = filterRange(a, p.N, p.M, func(x int) bool { return x != op.X })
	case "remove-duplicates-fe":
		p.Res = dedupFirst(a)
	case "delete-fe", "delete-se":
		if op.F == "delete-fe" {
			p.Res = dropLast(a, func(x int) bool { return x == op.X })
		} else {
			p.N = mod(op.N, la+1)
			p.M = p.N + mod(op.M, la-p.N+1)
			p.Res = filterRange(a, p.N, p.M, func(x int) bool { return x != op.X })
		}
		if la > 0 {
			p.Mut = s.Grp[op.A]
			p.ResGroup = s.shareWith(op.A, p.Res)
		}
	case "butlast1":
		if la > 1 {
			p.Res = cp(a[:la-1])
		}
	case "butlast":
		p.N = mod(op.N, la+2)
		if p.N < la {
			p.Res = cp(a[:la-p.N])
		}
	case "subseq":
		if la == 0 {
			p.Skip = "subseq-on-nil" // slip signals a type-error for (subseq nil 0); outside this property
			return p
		}
		p.N = mod(op.N, la+1)
		p.M = p.N + mod(op.M, la-p.N+1)
		p.Res = cp(a[p.N:p.M])
	case "subseq1":
		if la == 0 {
			p.Skip = "subseq-on-nil"
			return p
		}
		p.N = mod(op.N, la+1)
		p.Res = cp(a[p.N:])
	case "copy-list", "copy-seq":
		p.Res = cp(a)
	case "reverse":
		p.Res = rev(a)
	case "mapcons", "maplist2", "maprest1", "maprest2":
		b := s.Val[op.B]
		n := len(a)
		if len(b) < n {
			n = len(b)
		}
		if op.F == "mapcons" || op.F == "maprest1" {
			p.Res = cp(a[:n])
		} else {
			p.Res = cp(b[:n])
		}
	case "mapcar":
		if la == 0 {
			p.Skip = "mapcar-on-nil" // slip signals a type-error for (mapcar f nil); outside this property
			return p
		}
		p.Res = make([]int, la)
		for i, x := range a {
			p.Res[i] = x + 1
		}
	case "push":
		p.Res = cat([]int{op.X}, a)
		p.ResGroup = s.Grp[op.A] // the variable and the returned list are the same object (an empty A is alone in its group)
		p.Def = map[int][]int{op.A: p.Res}
	case "pop":
		p.Atom = true
		if la == 0 {
			p.AtomNil = true
		} else {
			p.AtomVal = a[0]
			p.Def = map[int][]int{op.A: cp(a[1:])}
		}
	case "setcar", "setnth", "setelt", "rplaca":
		if la == 0 {
			p.Skip = "point-on-nil"
			return p
		}
		if op.F == "setnth" || op.F == "setelt" {
			p.N = mod(op.N, la)
		}
		nv := cp(a)
		nv[p.N] = op.X
		p.Def = map[int][]int{op.A: nv}
		p.Mut = s.Grp[op.A]
		p.Point, p.PointX = true, op.X
		if op.F == "rplaca" {
			p.Res = nv
			p.ResGroup = s.Grp[op.A]
		} else {
			p.Atom, p.AtomVal = true, op.X
		}
	case "rplacd":
		if la == 0 {
			p.Skip = "point-on-nil"
			return p
		}
		if len(b) > 0 && s.Grp[op.A] == s.Grp[op.B] {
			p.Skip = "would-be-circular"
			return p
		}
		p.Res = cat(a[:1], b)
		p.Mut = s.Grp[op.A]
		p.ResGroup = s.Grp[op.A]
		if len(b) > 0 {
			p.Merge = [2]int{s.Grp[op.A], s.Grp[op.B]}
		}
	case "nconc":
		if la > 0 && len(b) > 0 && s.Grp[op.A] == s.Grp[op.B] {
			p.Skip = "would-be-circular"
			return p
		}
		p.Res = cat(a, b)
		switch {
		case la == 0:
			p.ResGroup = s.shareWith(op.B, p.Res)
		case len(b) == 0:
			p.ResGroup = s.Grp[op.A]
		default:
			p.Mut = s.Grp[op.A]
			p.ResGroup = s.Grp[op.A]
			p.Merge = [2]int{s.Grp[op.A], s.Grp[op.B]}
		}
	case "nconc-end":
		p.N = la
		p.Res = cp(b)
		p.ResGroup = s.shareWith(op.B, p.Res)
	case "nreverse":
		p.Res = rev(a)
		if la > 0 {
			p.Mut = s.Grp[op.A]
			p.ResGroup = s.Grp[op.A]
		}
	case "sort", "stable-sort":
		p.Res = cp(a)
		sort.Ints(p.Res)
		if la > 0 {
			p.Mut = s.Grp[op.A]
			p.ResGroup = s.Grp[op.A]
		}
	case "delete", "delete-if", "delete-duplicates":
		switch op.F {
		case "delete":
			p.Res = filter(a, func(x int) bool { return x != op.X })
		case "delete-if":
			p.Res = filter(a, func(x int) bool { return x%2 != 0 })
		default:
			p.Res = dedup(a)
		}
		if la > 0 {
			p.Mut = s.Grp[op.A]
			p.ResGroup = s.shareWith(op.A, p.Res)
		}
	case "add", "add2":
		xs := []int{op.X}
		if op.F == "add2" {
			xs = append(xs, op.X+1)
		}
		p.Res = cat(a, xs)
		if la > 0 {
			// like (nconc a (list x)): the last cell of a is modified
			p.Mut = s.Grp[op.A]
			p.ResGroup = s.Grp[op.A]
		}
	default:
		p.Skip = "unknown-op"
	}
	return p
}

// Eq compares two integer lists.
func Eq(a, b []int) bool {
	if len(a) != len(b) {
		return false
	}
	for i := range a {
		if a[i] != b[i] {
			return false
		}
	}
	return true
}

// Show renders an integer list the way the harness prints lists.
func Show(v []int) string {
	if len(v) == 0 {
		return "nil"
	}
	parts := make([]string, len(v))
	for i, x := range v {
		parts[i] = strconv.Itoa(x)
	}
	return "(" + strings.Join(parts, " ") + ")"
}

// Got is what the implementation did: the returned value and the values of all variables afterwards.
type Got struct {
	Atom    bool // returned value is an atom
	AtomNil bool
	AtomVal int
	Res     []int
	After   [][]int
}

// Check compares the implementation with the plan and, when they agree, advances the model
// (values of variables that were allowed to change are taken from the implementation).
func (s *State) Check(p *Plan, g *Got) error {
	name := func(i int) string { return "v" + strconv.Itoa(i) }
	// 1. returned value
	if p.Atom {
		switch {
		case p.AtomNil:
			if !(g.AtomNil || (!g.Atom && len(g.Res) == 0)) {
				return fmt.Errorf("returned %s, expected nil", showGot(g))
			}
		case !g.Atom || g.AtomNil || g.AtomVal != p.AtomVal:
			return fmt.Errorf("returned %s, expected %d", showGot(g), p.AtomVal)
		}
	} else {
		if g.Atom && !g.AtomNil {
			return fmt.Errorf("returned the atom %d, expected %s", g.AtomVal, Show(p.Res))
		}
		if !Eq(g.Res, p.Res) {
			return fmt.Errorf("returned %s, expected %s", Show(g.Res), Show(p.Res))
		}
	}
	// 2. every variable
	for i := range s.Val {
		now := g.After[i]
		switch {
		case p.Store && i == p.Op.T:
			if !Eq(now, p.Res) {
				return fmt.Errorf("%s was bound to the result %s but holds %s", name(i), Show(p.Res), Show(now))
			}
		case p.Def[i] != nil || hasKey(p.Def, i):
			if !Eq(now, p.Def[i]) {
				return fmt.Errorf("%s must be %s afterwards, holds %s (was %s)", name(i), Show(p.Def[i]), Show(now), Show(s.Val[i]))
			}
		case p.Mut != 0 && s.Grp[i] == p.Mut:
			if p.Point && !pointOK(s.Val[i], now, p.PointX) {
				return fmt.Errorf("%s may share cells with %s, but replacing one element by %d turned it from %s into %s",
					name(i), name(p.Op.A), p.PointX, Show(s.Val[i]), Show(now))
			}
		default:
			if !Eq(now, s.Val[i]) {
				why := "the operation modifies no existing list"
				if p.Mut != 0 {
					why = "it cannot share cells with " + name(p.Op.A)
				}
				return fmt.Errorf("%s changed from %s to %s although %s", name(i), Show(s.Val[i]), Show(now), why)
			}
		}
	}
	// 3. advance
	for i := range s.Val {
		s.Val[i] = cp(g.After[i])
	}
	if p.Merge[0] != 0 && p.Merge[0] != p.Merge[1] {
		for i := range s.Grp {
			if s.Grp[i] == p.Merge[1] {
				s.Grp[i] = p.Merge[0]
			}
		}
	}
	if p.Store {
		if p.ResGroup == 0 {
			s.Grp[p.Op.T] = s.fresh()
		} else {
			s.Grp[p.Op.T] = p.ResGroup
		}
	}
	for i := range s.Val {
		if len(s.Val[i]) == 0 {
			s.Grp[i] = s.fresh() // NIL shares nothing
		}
	}
	return nil
}

func hasKey(m map[int][]int, k int) bool { _, ok := m[k]; return ok }

func showGot(g *Got) string {
	if g.Atom {
		if g.AtomNil {
			return "nil"
		}
		return strconv.Itoa(g.AtomVal)
	}
	return Show(g.Res)
}

// pointOK: now is old, or old with exactly one position replaced by x.
func pointOK(old, now []int, x int) bool {
	if len(old) != len(now) {
		return false
	}
	diff := 0
	for i := range old {
		if old[i] != now[i] {
			diff++
			if now[i] != x {
				return false
			}
		}
	}
	return diff <= 1
}
