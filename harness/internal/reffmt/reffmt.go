// Package reffmt is an independent reference renderer of the format
// directives named by property C15 (CLHS 22.3): ~A ~S ~D ~B ~O ~X ~R ~C ~% ~&
// ~| ~~ ~T ~* ~? ~( ~) ~[ ~; ~] ~{ ~} ~^ ~P, prefix parameters as numbers,
// 'c, v and #. It has its own control-string parser, its own integer
// grouping/padding, its own English speller and Roman converter. It shares no
// code with slip. Everything else (floats, ~<, ~/, ~W, pretty printing) is
// reported as outside the model (Info.Undef).
package reffmt

import (
	"fmt"
	"math/big"
	"strings"
	"unicode"
)

// Arg is a JSON-serialisable format argument.
type Arg struct {
	K string `json:"k"`           // int | str | chr | sym | nil | t | list
	S string `json:"s,omitempty"` // decimal digits | text | the character | symbol name
	L []Arg  `json:"l,omitempty"`
}

// Constructors.
func Int(v *big.Int) Arg   { return Arg{K: "int", S: v.String()} }
func I(v int64) Arg        { return Arg{K: "int", S: big.NewInt(v).String()} }
func Str(s string) Arg     { return Arg{K: "str", S: s} }
func Chr(r rune) Arg       { return Arg{K: "chr", S: string(r)} }
func Sym(s string) Arg     { return Arg{K: "sym", S: s} }
func Nil() Arg             { return Arg{K: "nil"} }
func List(l ...Arg) Arg    { return Arg{K: "list", L: l} }
func (a Arg) IsNil() bool  { return a.K == "nil" || (a.K == "list" && len(a.L) == 0) }
func (a Arg) IsList() bool { return a.K == "list" || a.K == "nil" }

// Big returns the integer value of an int argument.
func (a Arg) Big() (*big.Int, bool) {
	if a.K != "int" {
		return nil, false
	}
	return new(big.Int).SetString(a.S, 10)
}

// Lisp renders the argument as Lisp source (messages only).
func (a Arg) Lisp() string {
	switch a.K {
	case "int", "sym":
		return a.S
	case "str":
		return fmt.Sprintf("%q", a.S)
	case "chr":
		return "#\\" + a.S
	case "nil":
		return "nil"
	case "t":
		return "t"
	}
	parts := make([]string, len(a.L))
	for i, e := range a.L {
		parts[i] = e.Lisp()
	}
	return "(" + strings.Join(parts, " ") + ")"
}

// Printer supplies the text of princ and prin1 for an argument (the agreement
// of ~A/~S with them is the property, so the check asks the printer under test).
type Printer interface {
	Princ(a Arg) string
	Prin1(a Arg) string
}

// Policy resolves the points the documentation leaves open.
type Policy struct {
	AmpAtStart bool // ~& as the very first output emits a newline (stream state unknown)
	TabAtCol   bool // ~nT when the column already equals n emits nothing (CLHS: one colinc step)
	Upper      bool // digits above 9 in upper case
}

// Info describes what a rendering met.
type Info struct {
	Undef string         // non-empty: outside the sound domain (reason)
	Feat  map[string]int // features met, for classes / exclusions
}

func (in *Info) feat(s string) { in.Feat[s]++ }

// ---------------------------------------------------------------- parser

type param struct {
	kind byte // 0 omitted, 'n' number, 'c' character, 'v', '#'
	n    int
	c    rune
}

type dir struct {
	ch         rune // directive character, upper case
	params     []param
	colon, at  bool
	clauses    [][]node
	sepColon   []bool // ~[ : separator after clause i was ~:;
	closeColon bool   // ~:}
}

type node struct {
	lit string
	d   *dir
}

type parser struct {
	s   []rune
	pos int
}

type undef string

func bad(format string, a ...any) { panic(undef(fmt.Sprintf(format, a...))) }

// parseSeq parses until one of the terminator directive characters (or the end if term is empty).
func (p *parser) parseSeq(term string) (nodes []node, end *dir) {
	var lit []rune
	flush := func() {
		if len(lit) > 0 {
			nodes = append(nodes, node{lit: string(lit)})
			lit = nil
		}
	}
	for p.pos < len(p.s) {
		c := p.s[p.pos]
		if c != '~' {
			lit = append(lit, c)
			p.pos++
			continue
		}
		flush()
		d := p.parseDir()
		if strings.ContainsRune(term, d.ch) {
			return nodes, d
		}
		switch d.ch {
		case '(':
			body, e := p.parseSeq(")")
			if e == nil {
				bad("~( not closed")
			}
			if e.colon || e.at || len(e.params) > 0 {
				bad("modifiers on ~)")
			}
			d.clauses = [][]node{body}
		case '[':
			for {
				body, e := p.parseSeq(";]")
				if e == nil {
					bad("~[ not closed")
				}
				d.clauses = append(d.clauses, body)
				if e.ch == ']' {
					if e.colon || e.at || len(e.params) > 0 {
						bad("modifiers on ~]")
					}
					break
				}
				if e.at || len(e.params) > 0 {
					bad("~; with parameters")
				}
				d.sepColon = append(d.sepColon, e.colon)
			}
		case '{':
			body, e := p.parseSeq("}")
			if e == nil {
				bad("~{ not closed")
			}
			if e.at || len(e.params) > 0 {
				bad("modifiers on ~}")
			}
			d.closeColon = e.colon
			d.clauses = [][]node{body}
		case ')', ']', '}', ';':
			bad("stray ~%c", d.ch)
		}
		nodes = append(nodes, node{d: d})
	}
	flush()
	return nodes, nil
}

func (p *parser) parseDir() *dir {
	p.pos++ // ~
	d := &dir{}
	need := func() rune {
		if p.pos >= len(p.s) {
			bad("control string ends inside a directive")
		}
		return p.s[p.pos]
	}
	// prefix parameters
	for {
		c := need()
		var pa param
		got := false
		switch {
		case c == '\'':
			p.pos++
			pa = param{kind: 'c', c: need()}
			p.pos++
			got = true
		case c == 'v' || c == 'V':
			pa = param{kind: 'v'}
			p.pos++
			got = true
		case c == '#':
			pa = param{kind: '#'}
			p.pos++
			got = true
		case c == '+' || c == '-' || (c >= '0' && c <= '9'):
			start := p.pos
			p.pos++
			for p.pos < len(p.s) && p.s[p.pos] >= '0' && p.s[p.pos] <= '9' {
				p.pos++
			}
			var n int
			if _, err := fmt.Sscanf(string(p.s[start:p.pos]), "%d", &n); err != nil {
				bad("bad number")
			}
			pa = param{kind: 'n', n: n}
			got = true
		}
		if need() == ',' {
			d.params = append(d.params, pa)
			p.pos++
			continue
		}
		if got {
			d.params = append(d.params, pa)
		}
		break
	}
	for {
		c := need()
		if c == ':' && !d.colon {
			d.colon = true
			p.pos++
		} else if c == '@' && !d.at {
			d.at = true
			p.pos++
		} else {
			break
		}
	}
	d.ch = need()
	if d.ch >= 0x80 {
		// only ASCII letters name directives (unicode.ToUpper turns the long s into S)
		bad("directive ~%c is outside the model", d.ch)
	}
	d.ch = unicode.ToUpper(d.ch)
	if !strings.ContainsRune("ASDBOXRC%|~&T*?()[]{}^P;", d.ch) {
		bad("directive ~%c is outside the model", d.ch)
	}
	p.pos++
	return d
}

// ---------------------------------------------------------------- interpreter

type actx struct {
	args []Arg
	pos  int
}

type state struct {
	out   []rune
	pr    Printer
	pol   Policy
	info  *Info
	steps int
}

type signal int

const (
	sigNone  signal = iota
	sigCaret        // ~^ taken
)

// Render renders control with args. The text is meaningful only when Info.Undef is empty.
func Render(control string, args []Arg, pr Printer, pol Policy) (text string, info *Info) {
	info = &Info{Feat: map[string]int{}}
	st := &state{pr: pr, pol: pol, info: info}
	defer func() {
		if r := recover(); r != nil {
			u, ok := r.(undef)
			if !ok {
				panic(r)
			}
			info.Undef = string(u)
			text = string(st.out)
		}
	}()
	p := &parser{s: []rune(control)}
	nodes, _ := p.parseSeq("")
	st.exec(nodes, &actx{args: args}, 0)
	return string(st.out), info
}

func (st *state) next(a *actx, what string) Arg {
	if a.pos >= len(a.args) {
		bad("no argument left for %s", what)
	}
	v := a.args[a.pos]
	a.pos++
	return v
}

// resolved parameter value
type pval struct {
	set bool
	n   int
	c   rune
	chr bool
}

func (st *state) params(d *dir, a *actx) []pval {
	out := make([]pval, len(d.params))
	for i, p := range d.params {
		switch p.kind {
		case 'n':
			out[i] = pval{set: true, n: p.n}
		case 'c':
			out[i] = pval{set: true, c: p.c, chr: true}
		case '#':
			out[i] = pval{set: true, n: len(a.args) - a.pos}
			st.info.feat("param#")
		case 'v':
			st.info.feat("paramV")
			v := st.next(a, "v parameter")
			switch v.K {
			case "nil":
				// as if omitted
			case "int":
				b, _ := v.Big()
				if !b.IsInt64() || b.Int64() > 1<<20 || b.Int64() < -(1<<20) {
					bad("huge v parameter")
				}
				out[i] = pval{set: true, n: int(b.Int64())}
			case "chr":
				out[i] = pval{set: true, c: []rune(v.S)[0], chr: true}
			default:
				bad("v parameter of kind %s", v.K)
			}
		}
	}
	return out
}

func num(ps []pval, i, def int, what string) int {
	if i < len(ps) && ps[i].set {
		if ps[i].chr {
			bad("character given for %s", what)
		}
		return ps[i].n
	}
	return def
}

func chr(ps []pval, i int, def rune, what string) rune {
	if i < len(ps) && ps[i].set {
		if !ps[i].chr {
			bad("number given for %s", what)
		}
		return ps[i].c
	}
	return def
}

func given(ps []pval, i int) bool { return i < len(ps) && ps[i].set }

func maxParams(d *dir, n int) {
	if len(d.params) > n {
		bad("too many parameters for ~%c", d.ch)
	}
}

func (st *state) write(s string) { st.out = append(st.out, []rune(s)...) }

func (st *state) column() int {
	for i := len(st.out) - 1; i >= 0; i-- {
		switch st.out[i] {
		case '\n':
			return len(st.out) - 1 - i
		case '\r', '\f', '\t':
			bad("column after a control character")
		}
	}
	return len(st.out)
}

func (st *state) exec(nodes []node, a *actx, depth int) signal {
	for _, n := range nodes {
		st.steps++
		if st.steps > 20000 {
			bad("too many steps")
		}
		if n.d == nil {
			st.write(n.lit)
			continue
		}
		if sig := st.dir(n.d, a, depth); sig != sigNone {
			return sig
		}
	}
	return sigNone
}

func rep(r rune, n int) string {
	if n <= 0 {
		return ""
	}
	return strings.Repeat(string(r), n)
}

func (st *state) dir(d *dir, a *actx, depth int) signal {
	ps := st.params(d, a)
	switch d.ch {
	case 'A', 'S':
		maxParams(d, 4)
		mincol := num(ps, 0, 0, "mincol")
		colinc := num(ps, 1, 1, "colinc")
		minpad := num(ps, 2, 0, "minpad")
		pad := chr(ps, 3, ' ', "padchar")
		if mincol < 0 || colinc < 1 || minpad < 0 {
			bad("~A parameter out of range")
		}
		arg := st.next(a, "~A")
		var text string
		switch {
		case d.colon && arg.K == "nil":
			text = "()"
		case d.ch == 'A':
			text = st.pr.Princ(arg)
		default:
			text = st.pr.Prin1(arg)
		}
		n := minpad
		for len([]rune(text))+n < mincol {
			n += colinc
		}
		if d.at {
			st.write(rep(pad, n) + text)
		} else {
			st.write(text + rep(pad, n))
		}
	case 'D', 'B', 'O', 'X':
		maxParams(d, 4)
		radix := map[rune]int{'D': 10, 'B': 2, 'O': 8, 'X': 16}[d.ch]
		st.integer(d, ps, 0, radix, a)
	case 'R':
		if len(d.params) > 0 {
			maxParams(d, 5)
			if !given(ps, 0) {
				bad("~R with parameters but no radix")
			}
			radix := num(ps, 0, 10, "radix")
			if radix < 2 || radix > 36 {
				bad("radix out of range")
			}
			st.info.feat("radixR")
			st.integer(d, ps, 1, radix, a)
			break
		}
		arg := st.next(a, "~R")
		v, ok := arg.Big()
		if !ok {
			bad("~R of a non-integer")
		}
		if d.at {
			if v.Sign() <= 0 || v.Cmp(big.NewInt(3999)) > 0 {
				bad("roman numeral out of 1..3999")
			}
			st.info.feat("roman")
			st.write(Roman(int(v.Int64()), d.colon))
		} else {
			if new(big.Int).Abs(v).Cmp(EnglishLimit) >= 0 {
				bad("english number >= 10^66")
			}
			st.info.feat("english")
			st.write(English(v, d.colon))
		}
	case 'C':
		maxParams(d, 0)
		arg := st.next(a, "~C")
		if arg.K != "chr" {
			bad("~C of a non-character")
		}
		r := []rune(arg.S)[0]
		switch {
		case d.colon:
			switch {
			case r == ' ':
				st.write("Space")
			case r == '\n':
				st.write("Newline")
			case r == '\t':
				st.write("Tab")
			case r > ' ' && r < 127:
				st.write(string(r))
			default:
				bad("~:C of a character whose name the documentation does not fix")
			}
		case d.at:
			st.write(st.pr.Prin1(arg))
		default:
			st.write(string(r))
		}
	case '%', '|', '~':
		maxParams(d, 1)
		n := num(ps, 0, 1, "count")
		if n < 0 {
			bad("negative count")
		}
		st.write(rep(map[rune]rune{'%': '\n', '|': '\f', '~': '~'}[d.ch], n))
	case '&':
		maxParams(d, 1)
		n := num(ps, 0, 1, "count")
		if n < 0 {
			bad("negative count")
		}
		if n == 0 {
			break
		}
		switch {
		case len(st.out) == 0:
			st.info.feat("amp-at-start")
			if st.pol.AmpAtStart {
				st.write("\n")
			}
		case st.out[len(st.out)-1] != '\n':
			st.write("\n")
		}
		st.write(rep('\n', n-1))
	case 'T':
		maxParams(d, 2)
		if d.colon {
			bad("~:T belongs to the pretty printer")
		}
		if !given(ps, 0) {
			st.info.feat("T-default-colnum")
		}
		colnum := num(ps, 0, 1, "colnum")
		colinc := num(ps, 1, 1, "colinc")
		if colnum < 0 || colinc < 0 {
			bad("negative ~T parameter")
		}
		col := st.column()
		if d.at {
			if colinc == 0 {
				bad("~@T with colinc 0")
			}
			col += colnum
			st.write(rep(' ', colnum))
			if m := col % colinc; m != 0 {
				st.write(rep(' ', colinc-m))
			}
			break
		}
		if colinc != 1 {
			// slip documents colinc as "the width of each column" and its suite pins colnum*colinc;
			// CLHS says colnum+k*colinc. Only colinc 1 is fixed by both.
			bad("~T with colinc other than 1")
		}
		switch {
		case col < colnum:
			st.write(rep(' ', colnum-col))
		case col == colnum:
			st.info.feat("T-at-col")
			if !st.pol.TabAtCol {
				st.write(" ")
			}
		default:
			st.write(" ")
		}
	case '*':
		maxParams(d, 1)
		switch {
		case d.colon && d.at:
			bad("~:@*")
		case d.colon:
			a.pos -= num(ps, 0, 1, "count")
		case d.at:
			a.pos = num(ps, 0, 0, "index")
		default:
			a.pos += num(ps, 0, 1, "count")
		}
		if a.pos < 0 || a.pos > len(a.args) {
			bad("~* moves outside the arguments")
		}
	case '?':
		maxParams(d, 0)
		if d.colon {
			bad("~:?")
		}
		c := st.next(a, "~? control")
		if c.K != "str" {
			bad("~? control is not a string")
		}
		sub, _ := (&parser{s: []rune(c.S)}).parseSeq("")
		if d.at {
			st.exec(sub, a, depth+1) // ~^ inside ends the inner control only
		} else {
			l := st.next(a, "~? arguments")
			if !l.IsList() {
				bad("~? arguments are not a list")
			}
			st.exec(sub, &actx{args: l.L}, depth+1)
		}
	case '(':
		maxParams(d, 0)
		start := len(st.out)
		sig := st.exec(d.clauses[0], a, depth+1)
		seg := string(st.out[start:])
		for _, r := range seg {
			if r > 126 {
				bad("case conversion of a non-ASCII character")
			}
		}
		var conv string
		switch {
		case d.colon && d.at:
			conv = strings.ToUpper(seg)
		case d.colon:
			conv = capitalize(seg, false)
		case d.at:
			for _, r := range seg {
				if isAlnum(r) {
					if r >= '0' && r <= '9' {
						bad("~@( where the first word starts with a digit")
					}
					break
				}
			}
			conv = capitalize(seg, true)
		default:
			conv = strings.ToLower(seg)
		}
		st.out = append(st.out[:start], []rune(conv)...)
		return sig
	case '[':
		return st.cond(d, ps, a, depth)
	case '{':
		st.iter(d, ps, a, depth)
	case '^':
		if len(d.params) > 0 || d.colon || d.at {
			bad("~^ with parameters or modifiers")
		}
		if a.pos >= len(a.args) {
			st.info.feat("caret-taken")
			return sigCaret
		}
		st.info.feat("caret-args-remain")
	case 'P':
		maxParams(d, 0)
		if d.colon {
			if a.pos == 0 {
				bad("~:P without a previous argument")
			}
			a.pos--
		}
		arg := st.next(a, "~P")
		one := arg.K == "int" && arg.S == "1"
		switch {
		case d.at && one:
			st.write("y")
		case d.at:
			st.write("ies")
		case !one:
			st.write("s")
		}
	default:
		bad("directive ~%c is outside the model", d.ch)
	}
	return sigNone
}

func isAlnum(r rune) bool {
	return (r >= 'a' && r <= 'z') || (r >= 'A' && r <= 'Z') || (r >= '0' && r <= '9')
}

// capitalize is string-capitalize (words = maximal alphanumeric runs); with firstOnly only the
// first word is capitalised and everything else is lower case.
func capitalize(s string, firstOnly bool) string {
	rs := []rune(strings.ToLower(s))
	inWord, words := false, 0
	for i, r := range rs {
		if isAlnum(r) {
			if !inWord {
				inWord = true
				words++
				if !firstOnly || words == 1 {
					rs[i] = unicode.ToUpper(r)
				}
			}
		} else {
			inWord = false
		}
	}
	return string(rs)
}

func (st *state) integer(d *dir, ps []pval, off, radix int, a *actx) {
	mincol := num(ps, off, 0, "mincol")
	pad := chr(ps, off+1, ' ', "padchar")
	comma := chr(ps, off+2, ',', "commachar")
	interval := num(ps, off+3, 3, "comma-interval")
	if mincol < 0 || interval < 1 {
		bad("integer directive parameter out of range")
	}
	arg := st.next(a, "integer directive")
	v, ok := arg.Big()
	if !ok {
		// "If arg is not an integer, it is printed in ~A format and decimal base"
		if mincol > 0 {
			bad("padding of a non-integer under an integer directive")
		}
		switch arg.K {
		case "str", "sym", "chr", "nil", "t":
		default:
			bad("non-integer of kind %s under an integer directive", arg.K)
		}
		st.info.feat("int-dir-nonint")
		st.write(st.pr.Princ(arg))
		return
	}
	st.write(FormatInt(v, radix, mincol, pad, comma, interval, d.colon, d.at, st.pol.Upper))
}

// FormatInt renders an integer the way ~mincol,padchar,commachar,comma-intervalD does in radix.
func FormatInt(v *big.Int, radix, mincol int, pad, comma rune, interval int, colon, at, upper bool) string {
	digits := new(big.Int).Abs(v).Text(radix)
	if upper {
		digits = strings.ToUpper(digits)
	}
	if colon {
		var b []rune
		ds := []rune(digits)
		for i, r := range ds {
			if i > 0 && (len(ds)-i)%interval == 0 {
				b = append(b, comma)
			}
			b = append(b, r)
		}
		digits = string(b)
	}
	switch {
	case v.Sign() < 0:
		digits = "-" + digits
	case at:
		digits = "+" + digits
	}
	if n := len([]rune(digits)); n < mincol {
		digits = rep(pad, mincol-n) + digits
	}
	return digits
}

func (st *state) cond(d *dir, ps []pval, a *actx, depth int) signal {
	maxParams(d, 1)
	nc := len(d.clauses)
	for i, c := range d.sepColon {
		if c && i != nc-2 {
			bad("~:; not before the last clause")
		}
	}
	hasDefault := len(d.sepColon) > 0 && d.sepColon[len(d.sepColon)-1]
	switch {
	case d.colon && d.at:
		bad("~:@[")
	case d.colon:
		if nc != 2 || hasDefault || len(d.params) > 0 {
			bad("~:[ needs exactly two clauses")
		}
		arg := st.next(a, "~:[")
		if arg.IsNil() {
			return st.exec(d.clauses[0], a, depth+1)
		}
		return st.exec(d.clauses[1], a, depth+1)
	case d.at:
		if nc != 1 || len(d.params) > 0 {
			bad("~@[ needs exactly one clause")
		}
		if a.pos >= len(a.args) {
			bad("no argument left for ~@[")
		}
		if a.args[a.pos].IsNil() {
			a.pos++
			return sigNone
		}
		return st.exec(d.clauses[0], a, depth+1)
	}
	var idx *big.Int
	if given(ps, 0) {
		idx = big.NewInt(int64(num(ps, 0, 0, "selector")))
	} else {
		arg := st.next(a, "~[")
		v, ok := arg.Big()
		if !ok {
			bad("~[ selector is not an integer")
		}
		idx = v
		if !v.IsInt64() {
			st.info.feat("cond-bignum-selector")
		}
	}
	n := nc
	if hasDefault {
		n--
	}
	if idx.Sign() >= 0 && idx.Cmp(big.NewInt(int64(n))) < 0 {
		return st.exec(d.clauses[idx.Int64()], a, depth+1)
	}
	if hasDefault {
		return st.exec(d.clauses[nc-1], a, depth+1)
	}
	return sigNone
}

func (st *state) iter(d *dir, ps []pval, a *actx, depth int) {
	maxParams(d, 1)
	max := -1
	if given(ps, 0) {
		max = num(ps, 0, 0, "max")
		if max < 0 {
			bad("negative iteration maximum")
		}
	}
	body := d.clauses[0]
	if len(body) == 0 {
		bad("empty iteration body (control taken from the arguments)")
	}
	once := d.closeColon
	count := 0
	more := func() bool {
		if max >= 0 && count >= max {
			return false
		}
		count++
		if count > 64 {
			bad("iteration does not end")
		}
		return true
	}
	switch {
	case d.colon: // every step takes a sublist
		var outer *actx
		if d.at {
			outer = a
		} else {
			l := st.next(a, "~:{")
			if !l.IsList() {
				bad("~:{ argument is not a list")
			}
			outer = &actx{args: l.L}
		}
		for {
			if outer.pos >= len(outer.args) && !once {
				break
			}
			if !more() {
				break
			}
			once = false
			sub := &actx{}
			if outer.pos < len(outer.args) {
				l := outer.args[outer.pos]
				outer.pos++
				if !l.IsList() {
					bad("~:{ element is not a list")
				}
				sub.args = l.L
			}
			st.exec(body, sub, depth+1) // ~^ ends this step only
		}
	default:
		inner := a
		if !d.at {
			l := st.next(a, "~{")
			if !l.IsList() {
				bad("~{ argument is not a list")
			}
			inner = &actx{args: l.L}
		}
		for {
			if inner.pos >= len(inner.args) && !once {
				break
			}
			if !more() {
				break
			}
			once = false
			before := inner.pos
			if st.exec(body, inner, depth+1) == sigCaret {
				break
			}
			if inner.pos == before && inner.pos < len(inner.args) && max < 0 {
				bad("iteration body consumes nothing")
			}
		}
	}
}

// ---------------------------------------------------------------- numbers in words

// EnglishLimit is 10^66: the first number the short-scale names up to vigintillion cannot express.
var EnglishLimit = new(big.Int).Exp(big.NewInt(10), big.NewInt(66), nil)

var (
	small = []string{"zero", "one", "two", "three", "four", "five", "six", "seven", "eight", "nine", "ten",
		"eleven", "twelve", "thirteen", "fourteen", "fifteen", "sixteen", "seventeen", "eighteen", "nineteen"}
	tens   = []string{"", "", "twenty", "thirty", "forty", "fifty", "sixty", "seventy", "eighty", "ninety"}
	scales = []string{"", "thousand", "million", "billion", "trillion", "quadrillion", "quintillion", "sextillion",
		"septillion", "octillion", "nonillion", "decillion", "undecillion", "duodecillion", "tredecillion",
		"quattuordecillion", "quindecillion", "sexdecillion", "septendecillion", "octodecillion",
		"novemdecillion", "vigintillion"}
)

// English spells v (|v| < 10^66) as a cardinal or ordinal: words separated by single spaces, no
// hyphens, no commas, no "and"; negative numbers start with "minus".
func English(v *big.Int, ordinal bool) string {
	var words []string
	abs := new(big.Int).Abs(v)
	if abs.Sign() == 0 {
		words = []string{"zero"}
	} else {
		s := abs.String()
		for len(s)%3 != 0 {
			s = "0" + s
		}
		groups := len(s) / 3
		for g := 0; g < groups; g++ {
			h, t, o := int(s[g*3]-'0'), int(s[g*3+1]-'0'), int(s[g*3+2]-'0')
			if h+t+o == 0 {
				continue
			}
			if h > 0 {
				words = append(words, small[h], "hundred")
			}
			switch {
			case t >= 2:
				words = append(words, tens[t])
				if o > 0 {
					words = append(words, small[o])
				}
			case t*10+o > 0:
				words = append(words, small[t*10+o])
			}
			if sc := scales[groups-1-g]; sc != "" {
				words = append(words, sc)
			}
		}
	}
	if ordinal {
		words[len(words)-1] = ordinalWord(words[len(words)-1])
	}
	if v.Sign() < 0 {
		words = append([]string{"minus"}, words...)
	}
	return strings.Join(words, " ")
}

func ordinalWord(w string) string {
	switch w {
	case "one":
		return "first"
	case "two":
		return "second"
	case "three":
		return "third"
	case "five":
		return "fifth"
	case "eight":
		return "eighth"
	case "nine":
		return "ninth"
	case "twelve":
		return "twelfth"
	}
	if strings.HasSuffix(w, "ty") {
		return w[:len(w)-1] + "ieth"
	}
	return w + "th"
}

// NormEnglish removes what CLHS leaves open in spelled numbers: hyphens, commas, "and", and the
// choice between "minus" and "negative".
func NormEnglish(s string) string {
	s = strings.ReplaceAll(s, ", ", " ")
	s = strings.ReplaceAll(s, ",", " ")
	s = strings.ReplaceAll(s, "-", " ")
	s = strings.ReplaceAll(s, " and ", " ")
	// anywhere in the text: a spelled number may stand in the middle of other output
	for _, pre := range [][2]string{{"negative ", "minus "}, {"Negative ", "Minus "}, {"NEGATIVE ", "MINUS "}} {
		s = strings.ReplaceAll(s, pre[0], pre[1])
	}
	return s
}

// Roman renders 1..3999; old style uses IIII, VIIII, XXXX ... instead of the subtractive forms.
func Roman(n int, old bool) string {
	type rv struct {
		v int
		s string
	}
	tab := []rv{{1000, "M"}, {900, "CM"}, {500, "D"}, {400, "CD"}, {100, "C"}, {90, "XC"}, {50, "L"}, {40, "XL"},
		{10, "X"}, {9, "IX"}, {5, "V"}, {4, "IV"}, {1, "I"}}
	var b strings.Builder
	for _, e := range tab {
		if old && len(e.s) == 2 {
			continue
		}
		for n >= e.v {
			b.WriteString(e.s)
			n -= e.v
		}
	}
	return b.String()
}

// ---------------------------------------------------------------- shape of a control string

// Shape summarises a control string for the non-triviality rule and the class histogram.
type Shape struct {
	Dirs       int      // directives on all levels (closing ~) ~] ~} and ~; not counted)
	Depth      int      // deepest block nesting (0 = no block)
	ParamOrMod bool     // some directive has a prefix parameter or a modifier
	Kinds      []string // directive characters met, with modifiers, e.g. "D", ":@D", "{"
}

// Analyze parses control with the reference parser. ok=false if it does not parse.
func Analyze(control string) (sh Shape, ok bool) {
	defer func() {
		if r := recover(); r != nil {
			if _, is := r.(undef); !is {
				panic(r)
			}
			ok = false
		}
	}()
	nodes, _ := (&parser{s: []rune(control)}).parseSeq("")
	var walk func(ns []node, depth int)
	walk = func(ns []node, depth int) {
		for _, n := range ns {
			if n.d == nil {
				continue
			}
			sh.Dirs++
			k := ""
			if n.d.colon {
				k += ":"
			}
			if n.d.at {
				k += "@"
			}
			if k != "" || len(n.d.params) > 0 {
				sh.ParamOrMod = true
			}
			sh.Kinds = append(sh.Kinds, k+string(n.d.ch))
			if len(n.d.clauses) > 0 {
				if depth+1 > sh.Depth {
					sh.Depth = depth + 1
				}
				for _, c := range n.d.clauses {
					walk(c, depth+1)
				}
			}
		}
	}
	walk(nodes, 0)
	return sh, true
}
