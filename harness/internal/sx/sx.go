// Package sx is the harness's own S-expression rendering of slip objects. It
// does not use slip's printer, so comparisons of results do not depend on the
// code under test. The text is canonical: one object, one text.
package sx

import (
	"fmt"
	"math/big"
	"strconv"
	"strings"

	"github.com/ohler55/slip"

	"verif/harness/internal/ev"
)

func init() {
	ev.Render = Text
}

// Text renders obj canonically.
func Text(obj slip.Object) string {
	var b strings.Builder
	write(&b, obj, 0)
	return b.String()
}

// Typed renders obj with number types tagged (fixnum/bignum/ratio/float kinds distinct).
func Typed(obj slip.Object) string {
	var b strings.Builder
	write(&b, obj, 1)
	return b.String()
}

func write(b *strings.Builder, obj slip.Object, typed int) {
	switch to := obj.(type) {
	case nil:
		b.WriteString("nil")
	case slip.Fixnum:
		if typed > 0 {
			b.WriteString("fix:")
		}
		b.WriteString(strconv.FormatInt(int64(to), 10))
	case *slip.Bignum:
		if typed > 0 {
			b.WriteString("big:")
		}
		b.WriteString((*big.Int)(to).String())
	case *slip.Ratio:
		if typed > 0 {
			b.WriteString("rat:")
		}
		b.WriteString((*big.Rat)(to).Num().String())
		b.WriteByte('/')
		b.WriteString((*big.Rat)(to).Denom().String())
	case slip.SingleFloat:
		b.WriteString("sf:")
		b.WriteString(strconv.FormatFloat(float64(to), 'g', -1, 32))
	case slip.DoubleFloat:
		b.WriteString("df:")
		b.WriteString(strconv.FormatFloat(float64(to), 'g', -1, 64))
	case *slip.LongFloat:
		b.WriteString("lf:")
		b.WriteString((*big.Float)(to).Text('g', -1))
	case slip.String:
		b.WriteString(strconv.Quote(string(to)))
	case slip.Symbol:
		s := strings.ToLower(string(to))
		if s == "nil" {
			b.WriteString("nil")
		} else {
			b.WriteString(s)
		}
	case slip.Character:
		b.WriteString("#\\u")
		b.WriteString(strconv.FormatInt(int64(to), 16))
	case slip.List:
		if len(to) == 0 {
			b.WriteString("nil")
			return
		}
		b.WriteByte('(')
		for i, e := range to {
			if i > 0 {
				b.WriteByte(' ')
			}
			if t, ok := e.(slip.Tail); ok {
				b.WriteString(". ")
				write(b, t.Value, typed)
				continue
			}
			write(b, e, typed)
		}
		b.WriteByte(')')
	case slip.Tail:
		b.WriteString(". ")
		write(b, to.Value, typed)
	case slip.Values:
		b.WriteString("#values(")
		for i, e := range to {
			if i > 0 {
				b.WriteByte(' ')
			}
			write(b, e, typed)
		}
		b.WriteByte(')')
	case *slip.Vector:
		b.WriteString("#(")
		for i, e := range to.AsList() {
			if i > 0 {
				b.WriteByte(' ')
			}
			write(b, e, typed)
		}
		b.WriteByte(')')
	case slip.Octets:
		b.WriteString("#octets(")
		for i, e := range to {
			if i > 0 {
				b.WriteByte(' ')
			}
			b.WriteString(strconv.Itoa(int(e)))
		}
		b.WriteByte(')')
	case *slip.Array:
		fmt.Fprintf(b, "#%dA%v", to.Rank(), to.Dimensions())
		write(b, to.AsList(), typed)
	default:
		if obj == slip.True {
			b.WriteString("t")
			return
		}
		fmt.Fprintf(b, "#<%s %s>", obj.Hierarchy()[0], ev.Show(obj))
	}
}
