// Package proggen generates closed, typed programs over the core forms as
// refeval S-expressions. Every program terminates and cannot signal (all
// calls have the right arity and argument types), so the only outcome is a
// value and a trace.
package proggen

import (
	"fmt"
	"strings"

	"pgregory.net/rapid"

	r "verif/harness/internal/refeval"
)

// Types of generated expressions.
const (
	TInt  = "int"
	TList = "list" // list of ints
	TBool = "bool"
	TFun  = "fun" // function of one int returning an int
	TAny  = "any"
	// tIter: an integer loop variable; readable like an int but never assigned by generated code
	tIter = "iter"
)

type binding struct {
	name string
	typ  string
}

// Opts steer the generator (exclusion tags of open findings switch productions off).
type Opts struct {
	MaxDepth       int
	NoValuesInTest bool // never a (values ...) with several values in a test or argument position
	NoValuesInInit bool // ... nor as the init form of a binding (let let* do) - slip binds the values object there
	NoLetStarDup   bool // no repeated variable in one let*
	NoProgn2MV     bool // no multiple values through progn
	NoEmptyMapcar  bool // never mapcar over an empty list
	NoCondNoBody   bool // no cond clause without body
	MarkOdds       int  // out of 10: wrap evaluated positions in vt:mark
	NoLambdaCall   bool // no lambda expression in the function position: ((lambda (p) ...) arg)
	CaseVary       bool // Program: some occurrences of variable names are written in another case (a / A name one variable in slip)
}

// Gen is the generator state for one program.
type Gen struct {
	T        *rapid.T
	O        Opts
	nextMark int64
	funs     []fdef // global functions defined so far
	nameCtr  int
	Kinds    map[string]int
	Depth    int
	Feat     map[string]bool
	// Suffix makes global function names unique across programs in one process.
	Suffix string
	// GlobalVars are integer-valued special variables visible everywhere (C08).
	GlobalVars []string
	// GlobalConsts are integer-valued constants visible everywhere: read like the variables, never assigned.
	GlobalConsts []string
	// MacroName, when set, is a one-argument macro (m x) => (+ x 1) that int expressions may use (C08).
	MacroName string
	// FunPrefix is the prefix of generated function names (default "f").
	FunPrefix string
	// AllFuns lets a function body call every function of the program, also later ones (C08); calls stay acyclic
	// because function i only calls functions with a larger index, or itself through the counted recursion.
	AllFuns []FunSig
}

// FunSig announces a function that will be defined.
type FunSig struct {
	Name  string
	Arity int
}

type fdef struct {
	name  string
	arity int
}

// New returns a generator.
func New(t *rapid.T, o Opts, suffix string) *Gen {
	if o.MaxDepth == 0 {
		o.MaxDepth = 6
	}
	return &Gen{T: t, O: o, Kinds: map[string]int{}, Feat: map[string]bool{}, Suffix: suffix}
}

func sym(s string) r.Val { return r.Sym(s) }

func (g *Gen) kind(k string) { g.Kinds[k]++ }

func (g *Gen) pick(label string, n int) int { return rapid.IntRange(0, n-1).Draw(g.T, label) }

func (g *Gen) lit() r.Val { return int64(rapid.IntRange(-3, 5).Draw(g.T, "lit")) }

var pool = []string{"a", "b", "c", "d", "w"} // not e: slip defines e as a constant

func (g *Gen) varName() string { return pool[g.pick("var", len(pool))] }

func (g *Gen) mark(e r.Val) r.Val {
	if g.O.MarkOdds > 0 && g.pick("mark", 10) < g.O.MarkOdds {
		g.nextMark++
		return r.L(sym("vt:mark"), g.nextMark, e)
	}
	return e
}

func varsOf(env []binding, typ string) []string {
	var out []string
	seen := map[string]bool{}
	for i := len(env) - 1; i >= 0; i-- {
		b := env[i]
		if seen[b.name] {
			continue
		}
		seen[b.name] = true // innermost binding of the name wins
		if b.typ == typ || (typ == TInt && b.typ == tIter) {
			out = append(out, b.name)
		}
	}
	return out
}

func assignable(env []binding) []string {
	var out []string
	seen := map[string]bool{}
	for i := len(env) - 1; i >= 0; i-- {
		b := env[i]
		if seen[b.name] {
			continue
		}
		seen[b.name] = true
		if b.typ == TInt {
			out = append(out, b.name)
		}
	}
	return out
}

func with(env []binding, bs ...binding) []binding {
	return append(append([]binding{}, env...), bs...)
}

// Expr generates an expression of the given type.
func (g *Gen) Expr(typ string, env []binding, d int) r.Val {
	if d > g.Depth {
		g.Depth = d
	}
	switch typ {
	case TInt:
		return g.mark(g.extraValues(g.intExpr(env, d)))
	case TList:
		return g.mark(g.extraValues(g.listExpr(env, d)))
	case TBool:
		return g.mark(g.extraValues(g.boolExpr(env, d)))
	case TFun:
		return g.funExpr(env, d)
	}
	// any
	switch g.pick("anyk", 10) {
	case 0, 1, 2:
		return g.Expr(TInt, env, d)
	case 3, 4:
		return g.Expr(TList, env, d)
	case 5:
		return g.Expr(TBool, env, d)
	default:
		return g.mark(g.stmt(env, d))
	}
}

// extraValues: with small probability the expression is given a second value; every consumer of a
// single value (argument, test, init form, setq) must use the primary value only.
func (g *Gen) extraValues(e r.Val) r.Val {
	if g.O.NoValuesInTest || g.O.NoValuesInInit || g.pick("extravalues", 25) != 0 {
		return e
	}
	g.kind("values-in-single-value-position")
	g.Feat["mv"] = true
	return r.L(sym("values"), e, g.lit())
}

// test wraps a form used as a test or as a function argument: only its primary value counts.
func (g *Gen) single(e r.Val) r.Val {
	if g.O.NoValuesInTest || g.pick("singlevalues", 8) != 0 {
		return e
	}
	g.kind("values-in-single-value-position")
	g.Feat["mv"] = true
	return r.L(sym("values"), e, g.lit())
}

func (g *Gen) leafInt(env []binding) r.Val {
	vs := varsOf(env, TInt)
	vs = append(vs, g.GlobalVars...)
	vs = append(vs, g.GlobalConsts...)
	if len(vs) > 0 && g.pick("leafvar", 3) > 0 {
		return sym(vs[g.pick("leafsel", len(vs))])
	}
	return g.lit()
}

func (g *Gen) intExpr(env []binding, d int) r.Val {
	if d >= g.O.MaxDepth {
		return g.leafInt(env)
	}
	switch g.pick("intk", 25) {
	case 0, 1:
		return g.leafInt(env)
	case 2:
		g.kind("call")
		return r.L(sym("+"), g.single(g.Expr(TInt, env, d+1)), g.Expr(TInt, env, d+1))
	case 3:
		g.kind("call")
		return r.L(sym("-"), g.Expr(TInt, env, d+1), g.Expr(TInt, env, d+1))
	case 4:
		g.kind("call")
		return r.L(sym("*"), g.Expr(TInt, env, d+1), int64(rapid.IntRange(-2, 3).Draw(g.T, "mul")))
	case 5:
		g.kind("if")
		return r.L(sym("if"), g.single(g.Expr(TBool, env, d+1)), g.Expr(TInt, env, d+1), g.Expr(TInt, env, d+1))
	case 6:
		return g.letForm("let", TInt, env, d)
	case 7:
		return g.letForm("let*", TInt, env, d)
	case 8:
		g.kind("progn")
		forms := []r.Val{sym("progn")}
		for i := g.pick("prognn", 3); i > 0; i-- {
			forms = append(forms, g.Expr(TAny, env, d+1))
		}
		return r.L(append(forms, g.Expr(TInt, env, d+1))...)
	case 9:
		g.kind("prog1")
		forms := []r.Val{sym("prog1"), g.Expr(TInt, env, d+1)}
		for i := g.pick("prog1n", 3); i > 0; i-- {
			forms = append(forms, g.Expr(TAny, env, d+1))
		}
		return r.L(forms...)
	case 10:
		g.kind("call")
		return r.L(sym("length"), g.Expr(TList, env, d+1))
	case 11:
		g.kind("call")
		return r.L(sym("car"), r.L(sym("cons"), g.Expr(TInt, env, d+1), g.Expr(TList, env, d+1)))
	case 12:
		g.kind("funcall")
		return r.L(sym("funcall"), g.Expr(TFun, env, d+1), g.single(g.Expr(TInt, env, d+1)))
	case 13:
		g.kind("apply")
		if g.pick("applyk", 2) == 0 {
			return r.L(sym("apply"), g.Expr(TFun, env, d+1), r.L(sym("list"), g.Expr(TInt, env, d+1)))
		}
		return r.L(sym("apply"), r.L(sym("function"), sym("+")), g.Expr(TInt, env, d+1), g.Expr(TList, env, d+1))
	case 14:
		if len(g.funs) > 0 {
			g.kind("usercall")
			f := g.funs[g.pick("fsel", len(g.funs))]
			call := []r.Val{sym(f.name)}
			for i := 0; i < f.arity; i++ {
				if i == 0 && g.pick("composed", 3) == 0 {
					// (f (f x)): the first reference to a function may hold another call to the same function in its
					// arguments (both are compiled before the function is defined)
					inner := []r.Val{sym(f.name)}
					for k := 0; k < f.arity; k++ {
						inner = append(inner, g.Expr(TInt, env, d+2))
					}
					call = append(call, r.L(inner...))
					continue
				}
				call = append(call, g.Expr(TInt, env, d+1))
			}
			return r.L(call...)
		}
		return g.leafInt(env)
	case 15:
		g.kind("cond")
		forms := []r.Val{sym("cond")}
		for i := g.pick("condn", 3); i > 0; i-- {
			forms = append(forms, r.L(g.single(g.Expr(TBool, env, d+1)), g.Expr(TInt, env, d+1)))
		}
		forms = append(forms, r.L(sym("t"), g.Expr(TInt, env, d+1)))
		return r.L(forms...)
	case 16:
		g.kind("case")
		forms := []r.Val{sym("case"), g.Expr(TInt, env, d+1)}
		for i, n := 0, g.pick("casen", 3); i < n; i++ {
			var key r.Val = int64(i)
			if g.pick("casekeylist", 3) == 0 {
				key = r.L(int64(i), int64(i+10))
			}
			forms = append(forms, r.L(key, g.Expr(TInt, env, d+1)))
		}
		forms = append(forms, r.L(sym([]string{"t", "otherwise"}[g.pick("caset", 2)]), g.Expr(TInt, env, d+1)))
		return r.L(forms...)
	case 17:
		vs := append(assignable(env), g.GlobalVars...)
		if len(vs) > 0 {
			g.kind("setq")
			g.Feat["setq"] = true
			return r.L(sym("setq"), sym(vs[g.pick("setqv", len(vs))]), g.Expr(TInt, env, d+1))
		}
		return g.leafInt(env)
	case 18:
		// accumulate in a loop
		return g.loopAcc(env, d)
	case 19:
		g.kind("mvb")
		g.Feat["mv"] = true
		a, b := g.varName(), g.varName()
		if a == b {
			b = a + "2"
		}
		if k := g.pick("mvbclosure", 4); k > 0 {
			// a closure made in the values form (or in an init form of let / let*) and called in the body, where a
			// variable of the name it closes over has been bound again: it sees and updates the binding around the
			// binding form (in let*, the earlier binding of the same form), not the new one
			g.kind("closure-in-init")
			g.Feat["closure"] = true
			g.Feat["setq"] = true
			kf := "k" + b
			lam := r.L(sym("lambda"), r.L(sym("n")), r.L(sym("setq"), sym(a), r.L(sym("+"), sym(a), sym("n"))), g.mark(sym(a)))
			outer := with(env, binding{a, TInt})
			inner := with(outer, binding{kf, TFun})
			body := []r.Val{r.L(sym("+"), r.L(sym("funcall"), sym(kf), g.Expr(TInt, inner, d+1)), sym(a), r.L(sym("funcall"), sym(kf), g.lit()))}
			var form r.Val
			switch k {
			case 1:
				form = r.L(append([]r.Val{sym("multiple-value-bind"), r.L(sym(a), sym(kf)), r.L(sym("values"), g.Expr(TInt, outer, d+1), lam)}, body...)...)
			case 2:
				form = r.L(append([]r.Val{sym("let"), r.L(r.L(sym(a), g.Expr(TInt, outer, d+1)), r.L(sym(kf), lam))}, body...)...)
			default:
				form = r.L(append([]r.Val{sym("let*"), r.L(r.L(sym(kf), lam), r.L(sym(a), g.Expr(TInt, outer, d+1)))}, body...)...)
			}
			return r.L(sym("let"), r.L(r.L(sym(a), g.Expr(TInt, env, d+1))), r.L(sym("+"), form, sym(a)))
		}
		return r.L(sym("multiple-value-bind"), r.L(sym(a), sym(b)), g.valuesForm(env, d+1),
			g.Expr(TInt, with(env, binding{a, TInt}, binding{b, TInt}), d+1))
	case 20:
		// a counter closure called twice: state must persist in the binding it was created in
		return g.counter(env, d)
	case 21:
		if g.MacroName != "" {
			g.kind("macro-call")
			return r.L(sym(g.MacroName), g.Expr(TInt, env, d+1))
		}
		fallthrough
	case 22:
		// a lambda expression in the function position: called where it is written, its body sees the bindings
		// around it as they are at each evaluation (not as they were the first time the form was evaluated)
		if g.O.NoLambdaCall {
			return g.leafInt(env)
		}
		g.kind("lambda-call")
		g.Feat["lambda-call"] = true
		p := g.varName()
		in := with(env, binding{p, TInt})
		lam := []r.Val{sym("lambda"), r.L(sym(p))}
		if g.pick("lcbody", 3) == 0 {
			lam = append(lam, g.Expr(TAny, in, d+1))
		}
		lam = append(lam, g.Expr(TInt, in, d+1))
		return r.L(r.L(lam...), g.Expr(TInt, env, d+1))
	case 23:
		return g.factory(env, d)
	default:
		g.kind("call")
		return r.L(sym("1+"), g.Expr(TInt, env, d+1))
	}
}

// valuesForm: a form returning two integer values, possibly through value-transparent forms.
func (g *Gen) valuesForm(env []binding, d int) r.Val {
	v := r.L(sym("values"), g.Expr(TInt, env, d+1), g.Expr(TInt, env, d+1))
	switch g.pick("mvwrap", 12) {
	case 6:
		// all the values of the last form of an or / and are the values of the form
		g.kind("values-through-or")
		return r.L(sym("or"), r.L(sym("null"), g.Expr(TInt, env, d+1)), v)
	case 7:
		g.kind("values-through-and")
		return r.L(sym("and"), r.L(sym("not"), r.L(sym("null"), g.Expr(TInt, env, d+1))), v)
	case 8:
		g.kind("values-through-when")
		if g.pick("mvunless", 2) == 0 {
			return r.L(sym("unless"), r.L(sym("null"), g.Expr(TInt, env, d+1)), g.Expr(TAny, env, d+1), v)
		}
		return r.L(sym("when"), g.Expr(TInt, env, d+1), g.Expr(TAny, env, d+1), v)
	case 9:
		g.kind("values-through-cond")
		return r.L(sym("cond"), r.L(r.L(sym("null"), g.Expr(TInt, env, d+1)), g.Expr(TInt, env, d+1)), r.L(sym("t"), v))
	case 0:
		return r.L(sym("if"), g.Expr(TBool, env, d+1), v, r.L(sym("values"), g.Expr(TInt, env, d+1), g.Expr(TInt, env, d+1)))
	case 1:
		return r.L(sym("let"), r.L(r.L(sym("q"), g.Expr(TInt, env, d+1))), r.L(sym("values"), sym("q"), g.Expr(TInt, with(env, binding{"q", TInt}), d+1)))
	case 2:
		if !g.O.NoProgn2MV {
			return r.L(sym("progn"), g.Expr(TAny, env, d+1), v)
		}
	case 3:
		return r.L(sym("funcall"), r.L(sym("lambda"), r.L(sym("p")), r.L(sym("values"), sym("p"), g.Expr(TInt, with(env, binding{"p", TInt}), d+1))), g.Expr(TInt, env, d+1))
	}
	return v
}

func (g *Gen) counter(env []binding, d int) r.Val {
	g.kind("closure-state")
	g.Feat["closure"] = true
	g.Feat["setq"] = true
	cv := g.varName()
	fv := "k" + g.varName()
	mk := r.L(sym("let"), r.L(r.L(sym(cv), g.Expr(TInt, env, d+1))),
		r.L(sym("lambda"), r.L(sym("n")), r.L(sym("setq"), sym(cv), r.L(sym("+"), sym(cv), sym("n"))), g.mark(sym(cv))))
	// the caller rebinds the same variable name: the closure must not see or change the caller's binding
	inner := with(env, binding{fv, TFun}, binding{cv, TInt})
	return r.L(sym("let"), r.L(r.L(sym(fv), mk), r.L(sym(cv), g.Expr(TInt, env, d+1))),
		r.L(sym("funcall"), sym(fv), g.Expr(TInt, inner, d+1)),
		r.L(sym("+"), r.L(sym("funcall"), sym(fv), g.lit()), sym(cv)))
}

// factory: one (lambda ...) form is evaluated once per element of a list, every time in another binding of the variable
// it closes over, and all the closures are kept and called afterwards, the first one last: every closure must still
// see (and update) the binding it was created in.
func (g *Gen) factory(env []binding, d int) r.Val {
	g.kind("closure-factory")
	g.Feat["closure"] = true
	cv := g.varName()
	fv := "k" + g.varName()
	var body r.Val
	if g.pick("factorysetq", 2) == 0 {
		g.Feat["setq"] = true
		body = r.L(sym("lambda"), r.L(sym("n")), r.L(sym("setq"), sym(cv), r.L(sym("+"), sym(cv), sym("n"))), g.mark(sym(cv)))
	} else {
		body = r.L(sym("lambda"), r.L(sym("n")), g.mark(r.L(sym("+"), sym(cv), sym("n"))))
	}
	mk := r.L(sym("mapcar"), r.L(sym("lambda"), r.L(sym(cv)), body), r.L(sym("list"), g.Expr(TInt, env, d+1), g.Expr(TInt, env, d+1), g.lit()))
	call := func(sel r.Val, arg r.Val) r.Val { return r.L(sym("funcall"), sel, arg) }
	first := r.L(sym("car"), sym(fv))
	second := r.L(sym("car"), r.L(sym("cdr"), sym(fv)))
	third := r.L(sym("car"), r.L(sym("cdr"), r.L(sym("cdr"), sym(fv))))
	return r.L(sym("let"), r.L(r.L(sym(fv), mk)),
		r.L(sym("+"), call(third, g.lit()), call(second, g.lit()), call(first, g.lit()), call(second, g.lit()), call(first, g.lit())))
}

// nilStep: now and then a do loop gets one more variable whose step form is the literal nil (or the empty list): from
// the second round on it is nil, a step form that is there is not the same as none. The variable is only looked at
// through marks (first body form, result form), so its two types do not matter.
func (g *Gen) nilStep(env []binding, d int) (spec r.Val, look func() r.Val) {
	if g.pick("nilstep", 3) != 0 {
		return nil, nil
	}
	g.kind("do-nil-step")
	f := "f" + g.varName()
	var step r.Val
	spec = r.L(sym(f), g.Expr(TInt, env, d+1), step)
	if g.pick("nilstep-empty-list", 2) == 0 {
		spec = r.L(sym(f), g.Expr(TInt, env, d+1), r.L())
	}
	return spec, func() r.Val {
		g.nextMark++
		return r.L(sym("vt:mark"), g.nextMark, sym(f))
	}
}

func (g *Gen) loopAcc(env []binding, d int) r.Val {
	g.Feat["loop"] = true
	acc := g.varName()
	it := "i" + g.varName()
	in := with(env, binding{acc, TInt})
	switch g.pick("loopk", 4) {
	case 0:
		g.kind("dotimes")
		body := r.L(sym("setq"), sym(acc), r.L(sym("+"), sym(acc), g.Expr(TInt, with(in, binding{it, tIter}), d+2)))
		return r.L(sym("let"), r.L(r.L(sym(acc), g.lit())),
			r.L(sym("dotimes"), r.L(sym(it), int64(rapid.IntRange(0, 3).Draw(g.T, "times"))), body), sym(acc))
	case 1:
		g.kind("dolist")
		body := r.L(sym("setq"), sym(acc), r.L(sym("+"), sym(acc), g.Expr(TInt, with(in, binding{it, tIter}), d+2)))
		return r.L(sym("let"), r.L(r.L(sym(acc), g.lit())),
			r.L(sym("dolist"), r.L(sym(it), g.Expr(TList, in, d+1)), body), sym(acc))
	case 2:
		g.kind("do")
		j := "j" + g.varName()
		inner := with(env, binding{it, tIter}, binding{j, tIter})
		jspec := r.L(sym(j), g.Expr(TInt, env, d+1), r.L(sym("+"), sym(j), sym(it)))
		if g.pick("nostep", 3) == 0 {
			jspec = r.L(sym(j), g.Expr(TInt, env, d+1)) // no step form: the variable keeps its value
		}
		end := r.L(sym("="), sym(it), int64(rapid.IntRange(0, 3).Draw(g.T, "doend")))
		if fspec, look := g.nilStep(env, d); fspec != nil {
			return r.L(sym("do"), r.L(r.L(sym(it), int64(0), r.L(sym("1+"), sym(it))), jspec, fspec),
				r.L(end, look(), g.Expr(TInt, inner, d+1)),
				look(), g.Expr(TAny, inner, d+2))
		}
		if g.pick("noresult", 4) == 0 {
			// no result form: the value of the loop is nil whatever the end test returned
			g.kind("do-without-result")
			loop := r.L(sym("do"), r.L(r.L(sym(it), int64(0), r.L(sym("1+"), sym(it))), jspec), r.L(end), g.Expr(TAny, inner, d+2))
			return r.L(sym("if"), loop, g.Expr(TInt, env, d+1), g.Expr(TInt, env, d+1))
		}
		return r.L(sym("do"), r.L(
			r.L(sym(it), int64(0), r.L(sym("1+"), sym(it))),
			jspec),
			r.L(end, g.Expr(TInt, inner, d+1)),
			g.Expr(TAny, inner, d+2))
	default:
		g.kind("do*")
		j := "j" + g.varName()
		inner := with(env, binding{it, tIter}, binding{j, tIter})
		end := r.L(sym("="), sym(it), int64(rapid.IntRange(0, 3).Draw(g.T, "doend")))
		specs := r.L(
			r.L(sym(it), int64(0), r.L(sym("1+"), sym(it))),
			r.L(sym(j), r.L(sym("+"), sym(it), g.lit()), r.L(sym("+"), sym(j), sym(it))))
		if fspec, look := g.nilStep(env, d); fspec != nil {
			specs = append(specs.([]r.Val), fspec)
			return r.L(sym("do*"), specs, r.L(end, look(), g.Expr(TInt, inner, d+1)), look(), g.Expr(TAny, inner, d+2))
		}
		if g.pick("noresult", 4) == 0 {
			g.kind("do-without-result")
			return r.L(sym("if"), r.L(sym("do*"), specs, r.L(end), g.Expr(TAny, inner, d+2)), g.Expr(TInt, env, d+1), g.Expr(TInt, env, d+1))
		}
		return r.L(sym("do*"), specs, r.L(end, g.Expr(TInt, inner, d+1)), g.Expr(TAny, inner, d+2))
	}
}

func (g *Gen) letForm(kind, typ string, env []binding, d int) r.Val {
	g.kind(kind)
	n := 1 + g.pick("letn", 3)
	var bs []r.Val
	inner := append([]binding{}, env...)
	used := map[string]bool{}
	seqEnv := env
	for i := 0; i < n; i++ {
		name := g.varName()
		if used[name] && (kind == "let" || g.O.NoLetStarDup) {
			continue // (let ((a 1) (a 2)) is undefined; let* duplicates are an open finding
		}
		used[name] = true
		bt := []string{TInt, TInt, TList, TFun}[g.pick("lettype", 4)]
		var init r.Val
		if kind == "let*" {
			init = g.Expr(bt, seqEnv, d+1)
			seqEnv = with(seqEnv, binding{name, bt})
		} else {
			init = g.Expr(bt, env, d+1)
		}
		if bt == TFun {
			g.Feat["closure"] = true
		}
		bs = append(bs, r.L(sym(name), init))
		inner = append(inner, binding{name, bt})
	}
	forms := []r.Val{sym(kind), r.L(bs...)}
	for i := g.pick("letbody", 2); i > 0; i-- {
		forms = append(forms, g.Expr(TAny, inner, d+1))
	}
	forms = append(forms, g.Expr(typ, inner, d+1))
	return r.L(forms...)
}

func (g *Gen) listExpr(env []binding, d int) r.Val {
	vs := varsOf(env, TList)
	if d >= g.O.MaxDepth {
		if len(vs) > 0 && g.pick("leaflist", 2) == 0 {
			return sym(vs[g.pick("leaflistsel", len(vs))])
		}
		return r.L(sym("list"), g.lit(), g.lit())
	}
	switch g.pick("listk", 12) {
	case 0:
		if len(vs) > 0 {
			return sym(vs[g.pick("listvar", len(vs))])
		}
		fallthrough
	case 1:
		g.kind("quote")
		n := g.pick("qlen", 4)
		if g.O.NoEmptyMapcar && n == 0 {
			n = 1
		}
		items := []r.Val{}
		for i := 0; i < n; i++ {
			items = append(items, g.lit())
		}
		return r.L(sym("quote"), r.L(items...))
	case 2:
		g.kind("call")
		items := []r.Val{sym("list")}
		for i := 1 + g.pick("listn", 3); i > 0; i-- {
			items = append(items, g.Expr(TInt, env, d+1))
		}
		return r.L(items...)
	case 3:
		g.kind("call")
		return r.L(sym("cons"), g.Expr(TInt, env, d+1), g.Expr(TList, env, d+1))
	case 4:
		g.kind("call")
		// cdr of a list of at least two elements, so the result is never empty
		return r.L(sym("cdr"), r.L(sym("cons"), g.Expr(TInt, env, d+1), r.L(sym("cons"), g.Expr(TInt, env, d+1), g.Expr(TList, env, d+1))))
	case 5:
		g.kind("mapcar")
		return r.L(sym("mapcar"), g.Expr(TFun, env, d+1), g.Expr(TList, env, d+1))
	case 6:
		g.kind("mapcar")
		x, y := "x", "y"
		in := with(env, binding{x, TInt}, binding{y, TInt})
		return r.L(sym("mapcar"), r.L(sym("lambda"), r.L(sym(x), sym(y)), g.Expr(TInt, in, d+1)), g.Expr(TList, env, d+1), g.Expr(TList, env, d+1))
	case 7:
		return g.letForm("let", TList, env, d)
	case 8:
		g.kind("if")
		return r.L(sym("if"), g.Expr(TBool, env, d+1), g.Expr(TList, env, d+1), g.Expr(TList, env, d+1))
	case 9:
		g.kind("mvl")
		g.Feat["mv"] = true
		return r.L(sym("multiple-value-list"), g.valuesForm(env, d+1))
	case 10:
		// results of successive calls of one stateful closure, in order
		g.kind("closure-state")
		g.Feat["closure"] = true
		g.Feat["setq"] = true
		cv := g.varName()
		mk := r.L(sym("let"), r.L(r.L(sym(cv), g.lit())),
			r.L(sym("lambda"), r.L(sym("n")), r.L(sym("setq"), sym(cv), r.L(sym("+"), sym(cv), sym("n")))))
		return r.L(sym("let"), r.L(r.L(sym("kf"), mk)),
			r.L(sym("list"), r.L(sym("funcall"), sym("kf"), g.lit()), r.L(sym("funcall"), sym("kf"), g.Expr(TInt, with(env, binding{"kf", TFun}), d+1)), r.L(sym("funcall"), sym("kf"), g.lit())))
	default:
		g.kind("call")
		return r.L(sym("list"), g.Expr(TInt, env, d+1), g.Expr(TInt, env, d+1))
	}
}

func (g *Gen) boolExpr(env []binding, d int) r.Val {
	if d >= g.O.MaxDepth {
		return sym([]string{"t", "nil"}[g.pick("leafbool", 2)])
	}
	switch g.pick("boolk", 11) {
	case 9, 10:
		// a variable that holds a list, empty in most cases, is the test itself: an empty list is false however it was
		// made ((list), '(), the cdr of a one-element list) and however the variable got it (parameter, multiple-value-bind)
		g.kind("list-variable-as-test")
		var e r.Val
		switch g.pick("emptyk", 5) {
		case 0:
			e = r.L(sym("list"))
		case 1:
			e = r.L(sym("quote"), r.L())
		case 2, 3:
			e = r.L(sym("cdr"), r.L(sym("list"), g.Expr(TInt, env, d+1)))
		default:
			e = g.Expr(TList, env, d+1)
		}
		v := "l" + g.varName()
		test := r.L(sym("if"), sym(v), sym("t"), sym("nil"))
		switch g.pick("emptytest", 4) {
		case 0:
			test = r.L(sym("and"), sym(v), sym("t"))
		case 1:
			test = r.L(sym("cond"), r.L(sym(v), sym("t")), r.L(sym("t"), sym("nil")))
		}
		if g.pick("emptybind", 3) == 0 {
			return r.L(sym("multiple-value-bind"), r.L(sym(v)), e, test)
		}
		return r.L(sym("funcall"), r.L(sym("lambda"), r.L(sym(v)), test), e)
	case 0:
		return sym("t")
	case 1:
		return sym("nil")
	case 2:
		g.kind("call")
		return r.L(sym("<"), g.Expr(TInt, env, d+1), g.Expr(TInt, env, d+1))
	case 3:
		g.kind("call")
		return r.L(sym("="), g.Expr(TInt, env, d+1), g.Expr(TInt, env, d+1))
	case 4:
		g.kind("call")
		return r.L(sym("not"), g.Expr(TBool, env, d+1))
	case 5:
		g.kind("and")
		return r.L(sym("and"), g.single(g.Expr(TBool, env, d+1)), g.Expr(TBool, env, d+1))
	case 6:
		g.kind("or")
		return r.L(sym("or"), g.single(g.Expr(TBool, env, d+1)), g.Expr(TBool, env, d+1))
	case 7:
		g.kind("call")
		return r.L(sym("eq"), r.L(sym("quote"), sym([]string{"p", "q"}[g.pick("eqa", 2)])), r.L(sym("quote"), sym([]string{"p", "q"}[g.pick("eqb", 2)])))
	default:
		g.kind("call")
		return r.L(sym("null"), g.Expr(TList, env, d+1))
	}
}

// noIter drops loop variables: closures over an iteration variable are not generated (whether a loop
// rebinds its variable per iteration is implementation-dependent).
func noIter(env []binding) []binding {
	var out []binding
	for _, b := range env {
		if b.typ != tIter {
			out = append(out, b)
		} else {
			out = append(out, binding{b.name, "hidden"})
		}
	}
	return out
}

func (g *Gen) funExpr(env []binding, d int) r.Val {
	vs := varsOf(env, TFun)
	env = noIter(env)
	k := g.pick("funk", 7)
	if d >= g.O.MaxDepth && k > 2 {
		k = 2
	}
	switch k {
	case 0:
		if len(vs) > 0 {
			return sym(vs[g.pick("funvar", len(vs))])
		}
		fallthrough
	case 1:
		return r.L(sym("function"), sym([]string{"1+", "1-", "-"}[g.pick("funbuiltin", 3)]))
	case 2:
		if len(g.funs) > 0 {
			for _, f := range g.funs {
				if f.arity == 1 {
					return r.L(sym("function"), sym(f.name))
				}
			}
		}
		return r.L(sym("function"), sym("1+"))
	case 3, 4:
		g.kind("lambda")
		g.Feat["closure"] = true
		p := g.varName()
		return r.L(sym("lambda"), r.L(sym(p)), g.Expr(TInt, with(env, binding{p, TInt}), d+1))
	case 5:
		// lambda with a body of several forms
		g.kind("lambda")
		g.Feat["closure"] = true
		p := g.varName()
		in := with(env, binding{p, TInt})
		return r.L(sym("lambda"), r.L(sym(p)), g.Expr(TAny, in, d+1), g.Expr(TInt, in, d+1))
	default:
		// a closure over a fresh binding
		g.kind("lambda")
		g.Feat["closure"] = true
		cv := g.varName()
		p := "n"
		in := with(env, binding{cv, TInt}, binding{p, TInt})
		return r.L(sym("let"), r.L(r.L(sym(cv), g.Expr(TInt, env, d+1))), r.L(sym("lambda"), r.L(sym(p)), g.Expr(TInt, in, d+1)))
	}
}

// stmt: forms used for effect whose value is of no particular type.
func (g *Gen) stmt(env []binding, d int) r.Val {
	if d >= g.O.MaxDepth {
		return g.leafInt(env)
	}
	switch g.pick("stmtk", 10) {
	case 0:
		g.kind("when")
		forms := []r.Val{sym("when"), g.single(g.Expr(TBool, env, d+1))}
		for i := 1 + g.pick("whenn", 2); i > 0; i-- {
			forms = append(forms, g.Expr(TAny, env, d+1))
		}
		return r.L(forms...)
	case 1:
		g.kind("unless")
		forms := []r.Val{sym("unless"), g.single(g.Expr(TBool, env, d+1))}
		for i := 1 + g.pick("unlessn", 2); i > 0; i-- {
			forms = append(forms, g.Expr(TAny, env, d+1))
		}
		return r.L(forms...)
	case 2:
		g.kind("and")
		forms := []r.Val{sym("and")}
		for i := g.pick("andn", 4); i > 0; i-- {
			forms = append(forms, g.Expr(TAny, env, d+1))
		}
		return r.L(forms...)
	case 3:
		g.kind("or")
		forms := []r.Val{sym("or")}
		for i := g.pick("orn", 4); i > 0; i-- {
			forms = append(forms, g.Expr(TAny, env, d+1))
		}
		return r.L(forms...)
	case 4:
		g.kind("dotimes")
		g.Feat["loop"] = true
		it := "i" + g.varName()
		spec := []r.Val{sym(it), int64(rapid.IntRange(0, 3).Draw(g.T, "times"))}
		in := with(env, binding{it, tIter})
		if g.pick("dotimesres", 2) == 0 {
			spec = append(spec, g.Expr(TAny, in, d+1))
		}
		return r.L(sym("dotimes"), r.L(spec...), g.Expr(TAny, in, d+1))
	case 5:
		g.kind("dolist")
		g.Feat["loop"] = true
		it := "i" + g.varName()
		spec := []r.Val{sym(it), g.Expr(TList, env, d+1)}
		in := with(env, binding{it, tIter})
		if g.pick("dolistres", 2) == 0 {
			// the variable is nil while the result form is evaluated
			spec = append(spec, g.Expr(TAny, with(env, binding{it, "hidden"}), d+1))
		}
		return r.L(sym("dolist"), r.L(spec...), g.Expr(TAny, in, d+1))
	case 6:
		g.kind("cond")
		forms := []r.Val{sym("cond")}
		for i := 1 + g.pick("condn", 3); i > 0; i-- {
			if !g.O.NoCondNoBody && g.pick("condnobody", 5) == 0 {
				forms = append(forms, r.L(g.Expr(TAny, env, d+1)))
				continue
			}
			forms = append(forms, r.L(g.Expr(TAny, env, d+1), g.Expr(TAny, env, d+1)))
		}
		return r.L(forms...)
	case 7:
		g.kind("case")
		forms := []r.Val{sym("case"), g.Expr(TInt, env, d+1)}
		for i, n := 0, 1+g.pick("casen", 3); i < n; i++ {
			forms = append(forms, r.L(int64(i-1), g.Expr(TAny, env, d+1)))
		}
		return r.L(forms...)
	case 8:
		g.kind("if")
		return r.L(sym("if"), g.single(g.Expr(TAny, env, d+1)), g.Expr(TAny, env, d+1))
	default:
		return g.letForm([]string{"let", "let*"}[g.pick("stmtlet", 2)], TAny, env, d)
	}
}

// Defun generates a global function of one or two integer parameters; recursive ones count down.
func (g *Gen) Defun() r.Val {
	g.nameCtr++
	name := fmt.Sprintf("f%d%s", g.nameCtr, g.Suffix)
	arity := 1 + g.pick("arity", 2)
	params := []r.Val{}
	env := []binding{}
	for i := 0; i < arity; i++ {
		p := pool[i]
		params = append(params, sym(p))
		env = append(env, binding{p, TInt})
	}
	g.kind("defun")
	// one function in three is defined inside a let and closes over its variable (read and assigned by the body)
	captured := ""
	if g.pick("closuredefun", 3) == 0 {
		captured = "s" + g.varName()
		env = append(env, binding{captured, TInt})
	}
	var body r.Val
	if g.pick("recursive", 3) == 0 {
		g.kind("recursion")
		env[0].typ = tIter // the counter is never assigned, so the recursion terminates
		// (if (< a 1) base (+ expr (f (- a 1) ...)))
		call := []r.Val{sym(name), r.L(sym("-"), sym("a"), int64(1))}
		for i := 1; i < arity; i++ {
			call = append(call, g.Expr(TInt, env, 3))
		}
		body = r.L(sym("if"), r.L(sym("or"), r.L(sym("<"), sym("a"), int64(1)), r.L(sym("<"), int64(4), sym("a"))), g.Expr(TInt, env, 3),
			r.L(sym("+"), g.Expr(TInt, env, 3), r.L(call...)))
	} else {
		body = g.Expr(TInt, env, 2)
	}
	g.funs = append(g.funs, fdef{name, arity})
	def := r.L(sym("defun"), sym(name), r.L(params...), body)
	if captured != "" {
		g.kind("closure-defun")
		g.Feat["closure"] = true
		return r.L(sym("let"), r.L(r.L(sym(captured), g.lit())), def)
	}
	return def
}

// Program generates top-level forms: some defuns and a main expression.
func (g *Gen) Program() []r.Val {
	var forms []r.Val
	for i := g.pick("ndefun", 3); i > 0; i-- {
		forms = append(forms, g.Defun())
	}
	forms = append(forms, g.Expr([]string{TInt, TList, TAny, TInt}[g.pick("maintype", 4)], nil, 0))
	if g.O.CaseVary {
		for i, f := range forms {
			forms[i] = g.caseVary(f)
		}
	}
	return forms
}

// isVarName: the names the generator gives to variables: the pool, and the pool names behind i, j, k (loop variables,
// closure variables), n and q. None of them is ever used as the name of a function.
func isVarName(s string) bool {
	if s == "n" || s == "q" {
		return true
	}
	if len(s) == 2 && (s[0] == 'i' || s[0] == 'j' || s[0] == 'k') {
		s = s[1:]
	}
	for _, name := range pool {
		if s == name {
			return true
		}
	}
	return false
}

// caseVary writes about one in eight occurrences of a variable name from the pool in upper case. slip's symbols do not
// distinguish case, so the program is the same program. Quoted data and keywords stay as they are (pool names are never operators).
func (g *Gen) caseVary(v r.Val) r.Val {
	l, ok := v.([]r.Val)
	if !ok || len(l) == 0 {
		return v
	}
	if hd, isSym := l[0].(r.Sym); isSym && (hd == "quote" || hd == "function") {
		return v
	}
	out := make([]r.Val, len(l))
	for i, e := range l {
		if sy, isSym := e.(r.Sym); isSym {
			if isVarName(string(sy)) && g.pick("upcase", 8) == 0 {
				e = r.Sym(strings.ToUpper(string(sy)))
			}
			out[i] = e
			continue
		}
		out[i] = g.caseVary(e)
	}
	return out
}

// DefunIndexed generates the definition of function sigs[i]. Its body may call the functions with a larger
// index only (so the call graph is acyclic whatever the definition order) and, when recursive, itself through
// the bounded counter.
func (g *Gen) DefunIndexed(i int, sigs []FunSig) r.Val {
	return g.defunIndexed(i, sigs, false)
}

// DefunIndexedOpt is DefunIndexed with the last parameter made &optional with a constant default: a definition
// that accepts the calls of the plain one and calls with one argument less.
func (g *Gen) DefunIndexedOpt(i int, sigs []FunSig) r.Val {
	return g.defunIndexed(i, sigs, true)
}

func (g *Gen) defunIndexed(i int, sigs []FunSig, lastOptional bool) r.Val {
	g.funs = nil
	for _, s := range sigs[i+1:] {
		g.funs = append(g.funs, fdef{s.Name, s.Arity})
	}
	me := sigs[i]
	params := []r.Val{}
	env := []binding{}
	for k := 0; k < me.Arity; k++ {
		if lastOptional && k == me.Arity-1 {
			params = append(params, sym("&optional"), r.L(sym(pool[k]), g.lit()))
		} else {
			params = append(params, sym(pool[k]))
		}
		env = append(env, binding{pool[k], TInt})
	}
	g.kind("defun")
	var body r.Val
	if g.pick("recursive", 4) == 0 {
		g.kind("recursion")
		env[0].typ = tIter
		call := []r.Val{sym(me.Name), r.L(sym("-"), sym("a"), int64(1))}
		for k := 1; k < me.Arity; k++ {
			call = append(call, g.Expr(TInt, env, 4))
		}
		body = r.L(sym("if"), r.L(sym("or"), r.L(sym("<"), sym("a"), int64(1)), r.L(sym("<"), int64(3), sym("a"))), g.Expr(TInt, env, 4),
			r.L(sym("+"), g.Expr(TInt, env, 4), r.L(call...)))
	} else {
		body = g.Expr(TInt, env, 3)
	}
	return r.L(sym("defun"), sym(me.Name), r.L(params...), body)
}

// SetCallable makes the given functions callable from expressions generated next (the main form).
func (g *Gen) SetCallable(sigs []FunSig) {
	g.funs = nil
	for _, s := range sigs {
		g.funs = append(g.funs, fdef{s.Name, s.Arity})
	}
}
