// Package refhist is the reference model of what slip's REPL remembers
// between sessions (C20): the form history with its limit, the stash and the
// saved settings. It is written from the documentation (doc strings of
// History/Stash, SetLimit "target maximum number of forms saved", max = limit
// * 1.1, Form.Empty "no non-space characters", nth-history numbering from the
// most recent form) and does not share code with pkg/repl.
package refhist

import "strings"

// Form is one entered form: its lines, without the line terminators.
type Form []string

// Key is a text that identifies the form (lines cannot contain a newline).
func (f Form) Key() string { return strings.Join(f, "\n") }

// Equal compares line by line.
func (f Form) Equal(g Form) bool {
	if len(f) != len(g) {
		return false
	}
	for i := range f {
		if f[i] != g[i] {
			return false
		}
	}
	return true
}

// Empty is the documented emptiness: nothing but space characters.
func (f Form) Empty() bool {
	for _, l := range f {
		if strings.Trim(l, " ") != "" {
			return false
		}
	}
	return true
}

// Same compares two lists of forms.
func Same(a, b []Form) bool {
	if len(a) != len(b) {
		return false
	}
	for i := range a {
		if !a[i].Equal(b[i]) {
			return false
		}
	}
	return true
}

// IsPrefix reports whether p is a (possibly complete, possibly empty) prefix of l.
func IsPrefix(p, l []Form) bool {
	return len(p) <= len(l) && Same(p, l[:len(p)])
}

// Clone copies a list (forms are immutable by convention).
func Clone(l []Form) []Form { return append([]Form(nil), l...) }

// Model is the remembered state.
type Model struct {
	Hist        []Form // oldest first
	Limit       int
	Stash       []Form
	Compactions int // number of times the limit + 10% rule dropped old forms
}

// Clone copies the model.
func (m *Model) Clone() *Model {
	return &Model{Hist: Clone(m.Hist), Limit: m.Limit, Stash: Clone(m.Stash), Compactions: m.Compactions}
}

// Max is the length at which the history is cut back to Limit.
func (m *Model) Max() int { return m.Limit + m.Limit/10 }

// HistAdd enters a form: ignored when the limit is not positive, when the form
// is empty or equal to the most recent one; cut back to the most recent Limit
// forms when limit + 10% is reached. It reports whether the cut happened.
func (m *Model) HistAdd(f Form) (compacted bool) {
	if m.Limit <= 0 || f.Empty() {
		return
	}
	if n := len(m.Hist); n > 0 && m.Hist[n-1].Equal(f) {
		return
	}
	m.Hist = append(Clone(m.Hist), f)
	if len(m.Hist) >= m.Max() {
		m.Hist = Clone(m.Hist[len(m.Hist)-m.Limit:])
		m.Compactions++
		compacted = true
	}
	return
}

// StashAdd enters a form into the stash (no limit).
func (m *Model) StashAdd(f Form) {
	if f.Empty() {
		return
	}
	if n := len(m.Stash); n > 0 && m.Stash[n-1].Equal(f) {
		return
	}
	m.Stash = append(Clone(m.Stash), f)
}

// ClearRange gives the two readings of "clear from start to end" (inclusive,
// start < 0 = first, end < 0 or beyond = last): indices counted from the oldest
// form (as show-history numbers them) and from the most recent one (as
// nth-history does). The documentation does not say which; both are accepted.
// n is the number of forms removed (the same in both readings).
func ClearRange(l []Form, start, end int) (fromOldest, fromRecent []Form, n int) {
	fromOldest, fromRecent = Clone(l), Clone(l)
	if len(l) == 0 || start >= len(l) {
		return
	}
	if start < 0 {
		start = 0
	}
	if end < 0 || end >= len(l) {
		end = len(l) - 1
	}
	if start > end {
		return
	}
	n = end - start + 1
	fromOldest = append(Clone(l[:start]), l[end+1:]...)
	lo, hi := len(l)-1-end, len(l)-start
	fromRecent = append(Clone(l[:lo]), l[hi:]...)
	return
}
