// Package refseq is the reference model of the Common Lisp sequence functions
// used by check C14. It is written from CLHS chapter 17 (and 14/15 for the
// list and set functions), not from slip's sources.
//
// The model works on positions only: a sequence is its length, an element is
// its index, and "satisfies the test" is a predicate over indices supplied by
// the caller (which applies :key and :test/-if to the element at that index,
// with the argument order (test item (key element))). The caller turns index
// results back into elements. That keeps the model independent of how elements
// are represented and lets elements carry their identity (the index).
package refseq

// Find returns the index of the leftmost (rightmost when fromEnd) position in
// [s,e) that satisfies sat, or -1. (find, position, member, assoc ...)
func Find(s, e int, fromEnd bool, sat func(int) bool) int {
	if fromEnd {
		for i := e - 1; i >= s; i-- {
			if sat(i) {
				return i
			}
		}
		return -1
	}
	for i := s; i < e; i++ {
		if sat(i) {
			return i
		}
	}
	return -1
}

// Count is the number of positions in [s,e) satisfying sat. :from-end has no
// effect on the result.
func Count(s, e int, sat func(int) bool) int {
	n := 0
	for i := s; i < e; i++ {
		if sat(i) {
			n++
		}
	}
	return n
}

// Select marks the positions remove/delete/substitute act on: those in [s,e)
// that satisfy sat, limited to the leftmost *count (rightmost when fromEnd).
// count == nil means no limit, a negative count behaves as zero.
func Select(n, s, e int, count *int, fromEnd bool, sat func(int) bool) []bool {
	sel := make([]bool, n)
	limit := -1
	if count != nil {
		limit = *count
		if limit < 0 {
			limit = 0
		}
	}
	taken := 0
	visit := func(i int) {
		if limit >= 0 && taken >= limit {
			return
		}
		if sat(i) {
			sel[i] = true
			taken++
		}
	}
	if fromEnd {
		for i := e - 1; i >= s; i-- {
			visit(i)
		}
	} else {
		for i := s; i < e; i++ {
			visit(i)
		}
	}
	return sel
}

// RemoveDup marks the positions remove-duplicates discards. Elements of [s,e)
// are compared pairwise; same(i,j) is only called with i<j. If two match the
// earlier one is discarded, unless fromEnd, in which case the later one is.
// (Only meaningful, and only used, for tests that are equivalence relations.)
func RemoveDup(n, s, e int, fromEnd bool, same func(i, j int) bool) []bool {
	gone := make([]bool, n)
	for i := s; i < e; i++ {
		for j := i + 1; j < e; j++ {
			if same(i, j) {
				if fromEnd {
					gone[j] = true
				} else {
					gone[i] = true
				}
			}
		}
	}
	return gone
}

// Search returns the index in sequence-2 of the leftmost (rightmost when
// fromEnd) subsequence of [s2,e2) that matches [s1,e1) of sequence-1 element
// by element; eq(i,j) compares element i of sequence-1 with element j of
// sequence-2. -1 = no match.
func Search(s1, e1, s2, e2 int, fromEnd bool, eq func(i, j int) bool) int {
	m := e1 - s1
	found := -1
	for p := s2; p+m <= e2; p++ {
		ok := true
		for k := 0; k < m; k++ {
			if !eq(s1+k, p+k) {
				ok = false
				break
			}
		}
		if ok {
			if !fromEnd {
				return p
			}
			found = p
		}
	}
	return found
}

// Mismatch returns the index in sequence-1 where [s1,e1) and [s2,e2) first
// differ (either an element pair fails eq or one is shorter), -1 if they match.
// With fromEnd the subsequences are aligned at their ends and one plus the
// index of the rightmost differing position of sequence-1 is returned.
func Mismatch(s1, e1, s2, e2 int, fromEnd bool, eq func(i, j int) bool) int {
	if fromEnd {
		i, j := e1-1, e2-1
		for i >= s1 && j >= s2 {
			if !eq(i, j) {
				return i + 1
			}
			i--
			j--
		}
		if i < s1 && j < s2 {
			return -1
		}
		return i + 1
	}
	i, j := s1, s2
	for i < e1 && j < e2 {
		if !eq(i, j) {
			return i
		}
		i++
		j++
	}
	if i == e1 && j == e2 {
		return -1
	}
	return i
}

// Replace gives, for every position of sequence-1, the position of sequence-2
// whose element it receives (-1 = unchanged).
func Replace(n1, s1, e1, s2, e2 int) []int {
	src := make([]int, n1)
	for i := range src {
		src[i] = -1
	}
	m := e1 - s1
	if e2-s2 < m {
		m = e2 - s2
	}
	for k := 0; k < m; k++ {
		src[s1+k] = s2 + k
	}
	return src
}

// StableOrder is the stable sort of positions 0..n-1 under less (insertion sort).
func StableOrder(n int, less func(i, j int) bool) []int {
	ord := make([]int, 0, n)
	for i := 0; i < n; i++ {
		p := len(ord)
		// move left only past elements strictly greater than i
		for p > 0 && less(i, ord[p-1]) {
			p--
		}
		ord = append(ord, 0)
		copy(ord[p+1:], ord[p:])
		ord[p] = i
	}
	return ord
}

// Pick is an element of a merge result: which sequence and which position.
type Pick struct{ Side, Idx int }

// Merge interleaves two sequences (each already ordered); less(a,b) compares
// picks. On a tie the element of sequence-1 comes first (CLHS merge).
func Merge(n1, n2 int, less func(a, b Pick) bool) []Pick {
	out := make([]Pick, 0, n1+n2)
	i, j := 0, 0
	for i < n1 && j < n2 {
		a, b := Pick{0, i}, Pick{1, j}
		if less(b, a) {
			out = append(out, b)
			j++
		} else {
			out = append(out, a)
			i++
		}
	}
	for ; i < n1; i++ {
		out = append(out, Pick{0, i})
	}
	for ; j < n2; j++ {
		out = append(out, Pick{1, j})
	}
	return out
}

// Reduce folds vals (already passed through :key) with f. init may be nil.
// zero is what calling the function with no arguments gives; ok=false is
// returned when that is needed and zero is nil (the call would be an error).
func Reduce[T any](vals []T, init *T, fromEnd bool, f func(a, b T) T, zero *T) (r T, ok bool) {
	if len(vals) == 0 {
		if init != nil {
			return *init, true
		}
		if zero != nil {
			return *zero, true
		}
		return r, false
	}
	if fromEnd {
		i := len(vals) - 1
		var acc T
		if init != nil {
			acc = *init
		} else {
			acc = vals[i]
			i--
		}
		for ; i >= 0; i-- {
			acc = f(vals[i], acc)
		}
		return acc, true
	}
	i := 0
	var acc T
	if init != nil {
		acc = *init
	} else {
		acc = vals[0]
		i = 1
	}
	for ; i < len(vals); i++ {
		acc = f(acc, vals[i])
	}
	return acc, true
}
