// Package refdispatch is the reference model of C10: a cache-free dispatcher for generic functions with
// the standard method combination as slip documents it (design/generics.md): all applicable :around
// methods most specific first (nested through call-next-method), all :before methods most specific first,
// the single most specific primary, all :after methods least specific first. It never imports slip; the
// class precedence lists are a table written here (cross-checked once against slip's class-precedence by
// the check).
package refdispatch

import (
	"sort"
	"strconv"
	"strings"
)

// Universe is a set of argument values with their class precedence lists and the specializers used.
type Universe struct {
	Name  string
	Args  []string            // argument tokens
	CPL   map[string][]string // argument token -> class precedence list, most specific first
	Specs []string            // specializer names offered to the generator
}

// Num is the built-in numeric tower plus symbol.
var Num = &Universe{
	Name: "num",
	Args: []string{"fix", "big", "ratio", "dbl", "sgl", "sym"},
	CPL: map[string][]string{
		"fix":   {"fixnum", "integer", "rational", "real", "number", "t"},
		"big":   {"bignum", "integer", "rational", "real", "number", "t"},
		"ratio": {"ratio", "rational", "real", "number", "t"},
		"dbl":   {"double-float", "float", "real", "number", "t"},
		"sgl":   {"single-float", "float", "real", "number", "t"},
		"sym":   {"symbol", "t"},
	},
	Specs: []string{"fixnum", "integer", "rational", "real", "number", "t", "symbol", "float", "double-float", "single-float", "bignum", "ratio"},
}

// Usr is a chain of four user defined classes k1 < k2 < k3 < k4 (k1 most specific).
var Usr = &Universe{
	Name: "usr",
	Args: []string{"i1", "i2", "i3", "i4"},
	CPL: map[string][]string{
		"i1": {"c10k1", "c10k2", "c10k3", "c10k4", "standard-object", "t"},
		"i2": {"c10k2", "c10k3", "c10k4", "standard-object", "t"},
		"i3": {"c10k3", "c10k4", "standard-object", "t"},
		"i4": {"c10k4", "standard-object", "t"},
	},
	Specs: []string{"c10k1", "c10k2", "c10k3", "c10k4", "standard-object", "t"},
}

// Universes by name.
var Universes = map[string]*Universe{"num": Num, "usr": Usr}

// Method is one defined method. Qual is "" (primary), "before", "after" or "around". Style only matters
// for around methods (an around method returns (list id <result of call-next-method> <leaving mark>)): "" calls call-next-method once, "stop" does not call it, "twice" calls it twice,
// "nmp" reports (next-method-p) first, "noargs" calls (call-next-method) without arguments.
type Method struct {
	Qual  string
	Specs []string // "_" (unspecialized parameter) is the same as "t"
	ID    int
	Style string
}

// NormSpec maps the unspecialized marker to t.
func NormSpec(s string) string {
	if s == "_" {
		return "t"
	}
	return s
}

// Key identifies a method in the table: qualifier and specializers.
func Key(qual string, specs []string) string {
	var b strings.Builder
	b.WriteString(qual)
	for _, s := range specs {
		b.WriteByte('/')
		b.WriteString(NormSpec(s))
	}
	return b.String()
}

// Table is the set of methods of one generic function at one moment.
type Table struct {
	U *Universe
	M map[string]*Method
	// Tagged: the leaving mark of an around method returns -id (otherwise nil); it is the last element of
	// the list an around method returns.
	Tagged bool
}

// NewTable makes an empty table.
func NewTable(u *Universe) *Table { return &Table{U: u, M: map[string]*Method{}} }

// Clone copies the table (methods are immutable).
func (t *Table) Clone() *Table {
	c := NewTable(t.U)
	c.Tagged = t.Tagged
	for k, m := range t.M {
		c.M[k] = m
	}
	return c
}

// Define adds or replaces a method.
func (t *Table) Define(m *Method) { t.M[Key(m.Qual, m.Specs)] = m }

// Has reports whether a method with this qualifier and these specializers exists.
func (t *Table) Has(qual string, specs []string) bool { return t.M[Key(qual, specs)] != nil }

// Remove deletes a method; false when there is none.
func (t *Table) Remove(qual string, specs []string) bool {
	k := Key(qual, specs)
	if t.M[k] == nil {
		return false
	}
	delete(t.M, k)
	return true
}

type ranked struct {
	m    *Method
	rank []int
}

// Applicable returns the applicable methods for the argument tokens, most specific first (lexicographic
// by the position of each specializer in the precedence list of its argument, left to right).
func (t *Table) Applicable(args []string) []*Method {
	var rs []ranked
next:
	for _, m := range t.M {
		if len(m.Specs) != len(args) {
			continue
		}
		r := make([]int, len(args))
		for i, a := range args {
			pos := -1
			for j, c := range t.U.CPL[a] {
				if c == NormSpec(m.Specs[i]) {
					pos = j
					break
				}
			}
			if pos < 0 {
				continue next
			}
			r[i] = pos
		}
		rs = append(rs, ranked{m, r})
	}
	sort.Slice(rs, func(i, j int) bool {
		for k := range rs[i].rank {
			if rs[i].rank[k] != rs[j].rank[k] {
				return rs[i].rank[k] < rs[j].rank[k]
			}
		}
		// same specializers: order by qualifier only to be deterministic (never compared across qualifiers)
		return rs[i].m.Qual < rs[j].m.Qual
	})
	out := make([]*Method, len(rs))
	for i, r := range rs {
		out[i] = r.m
	}
	return out
}

// Expect is what a call must do.
type Expect struct {
	None      bool     // no applicable method at all: a condition, no method runs
	NoPrimary bool     // applicable methods but no applicable primary: outside the sound domain
	Trace     []string // events "id" or "id=value"
	Result    string   // canonical text of the returned value
	IDs       string   // signature of the applicable set (sorted ids), for the stale-cache rule
	Arounds   int
	Count     int
}

// Expect computes the expected trace and result of a call.
func (t *Table) Expect(args []string) (e Expect) {
	app := t.Applicable(args)
	e.Count = len(app)
	ids := make([]int, len(app))
	for i, m := range app {
		ids[i] = m.ID
	}
	sort.Ints(ids)
	var sb strings.Builder
	for _, id := range ids {
		sb.WriteString(strconv.Itoa(id))
		sb.WriteByte(',')
	}
	e.IDs = sb.String()
	if len(app) == 0 {
		e.None = true
		return
	}
	var arounds, befores, afters []*Method
	var primary *Method
	for _, m := range app {
		switch m.Qual {
		case "around":
			arounds = append(arounds, m)
		case "before":
			befores = append(befores, m)
		case "after":
			afters = append(afters, m)
		default:
			if primary == nil {
				primary = m
			}
		}
	}
	e.Arounds = len(arounds)
	if primary == nil {
		e.NoPrimary = true
		return
	}
	// the inner part: befores, primary, afters in reverse
	var inner []string
	for _, m := range befores {
		inner = append(inner, strconv.Itoa(m.ID))
	}
	inner = append(inner, strconv.Itoa(primary.ID))
	for i := len(afters) - 1; i >= 0; i-- {
		inner = append(inner, strconv.Itoa(afters[i].ID))
	}
	innerRes := strconv.Itoa(primary.ID)
	var walk func(i int) ([]string, string)
	walk = func(i int) ([]string, string) {
		if i == len(arounds) {
			return inner, innerRes
		}
		m := arounds[i]
		id := strconv.Itoa(m.ID)
		leave := "nil"
		if t.Tagged {
			leave = "-" + id
		}
		switch m.Style {
		case "stop":
			return []string{id}, id
		case "twice":
			tr, res := walk(i + 1)
			out := append([]string{id}, tr...)
			out = append(out, tr...)
			out = append(out, "-"+id)
			return out, "(" + id + " " + res + " " + res + " " + leave + ")"
		case "nested":
			if !t.Tagged {
				// the entering mark carries the value of the nested call of another generic function, (c10-helper 0)
				tr, res := walk(i + 1)
				out := append([]string{id + "=(0 0)"}, tr...)
				out = append(out, "-"+id)
				return out, "(" + id + " " + res + " " + leave + ")"
			}
			tr, res := walk(i + 1)
			out := append([]string{id}, tr...)
			out = append(out, "-"+id)
			return out, "(" + id + " " + res + " " + leave + ")"
		case "nmp":
			tr, res := walk(i + 1)
			out := append([]string{id + "=t"}, tr...)
			out = append(out, "-"+id)
			return out, "(" + id + " " + res + " " + leave + ")"
		}
		tr, res := walk(i + 1)
		out := append([]string{id}, tr...)
		out = append(out, "-"+id)
		return out, "(" + id + " " + res + " " + leave + ")"
	}
	e.Trace, e.Result = walk(0)
	return
}

// Run lists the methods that must run for the arguments in the order of the standard combination:
// arounds, befores, the most specific primary, afters (most specific first within each group). Other
// lists the remaining applicable methods (less specific primaries).
func (t *Table) Run(args []string) (run, other []*Method) {
	app := t.Applicable(args)
	var primary *Method
	for _, q := range []string{"around", "before", "", "after"} {
		for _, m := range app {
			if m.Qual != q {
				continue
			}
			if q == "" {
				if primary == nil {
					primary = m
					run = append(run, m)
				} else {
					other = append(other, m)
				}
				continue
			}
			run = append(run, m)
		}
	}
	return
}
