// Package ev evaluates Lisp through slip's exported API with recover and
// classifies the outcome. It also defines the observation package `vt`.
package ev

import (
	"fmt"
	"runtime"
	"runtime/debug"
	"strings"
	"sync"

	"github.com/ohler55/slip"
	// all functions
	_ "github.com/ohler55/slip/pkg"
)

// Kinds of outcome.
const (
	Value     = "value"
	Condition = "condition"
	Partial   = "partial"
	Fault     = "fault"
)

// Outcome of an evaluation.
type Outcome struct {
	Kind  string
	Val   slip.Object
	Class string // condition class for Condition
	Msg   string
	Stack string // Go stack for Fault
}

func (o Outcome) String() string {
	switch o.Kind {
	case Value:
		return "value " + Show(o.Val)
	case Condition:
		return "condition " + o.Class + ": " + o.Msg
	case Partial:
		return "partial: " + o.Msg
	}
	return "FAULT " + o.Msg
}

// Try runs fn and classifies what happens.
func Try(fn func() slip.Object) (out Outcome) {
	defer func() {
		rec := recover()
		if rec == nil {
			return
		}
		out = Classify(rec)
		if out.Kind == Fault {
			out.Stack = string(debug.Stack())
		}
	}()
	out.Val = fn()
	out.Kind = Value
	return
}

// Classify a recovered panic value.
func Classify(rec any) (out Outcome) {
	switch tr := rec.(type) {
	case *slip.PartialPanic:
		out.Kind = Partial
		out.Msg = tr.Message
	case *slip.Panic:
		out.Kind = Condition
		out.Class = string(tr.Hierarchy()[0])
		out.Msg = tr.Message
		if out.Msg == "" && tr.Condition != nil {
			if mv, has := tr.Condition.SlotValue(slip.Symbol("message")); has && mv != nil {
				out.Msg = slip.ObjectString(mv)
			}
		}
		if faultText(out.Msg) {
			out.Kind = Fault
		}
	case runtime.Error:
		out.Kind = Fault
		out.Msg = tr.Error()
	case slip.Object:
		// a condition instance or a non-local exit marker escaping
		out.Kind = Condition
		out.Class = string(tr.Hierarchy()[0])
		out.Msg = slip.ObjectString(tr)
		if inst, ok := rec.(slip.Instance); ok {
			if mv, has := inst.SlotValue(slip.Symbol("message")); has && mv != nil {
				if str, ok2 := mv.(slip.String); ok2 {
					out.Msg = string(str)
				}
			}
		}
		if e, ok := rec.(error); ok {
			out.Msg = e.Error()
		}
		if faultText(out.Msg) {
			out.Kind = Fault
		}
	case error:
		out.Kind = Fault
		out.Msg = fmt.Sprintf("%T: %s", rec, tr.Error())
	default:
		out.Kind = Fault
		out.Msg = fmt.Sprintf("%T: %v", rec, rec)
	}
	return
}

func faultText(msg string) bool {
	return strings.HasPrefix(msg, "runtime error:") ||
		strings.HasPrefix(msg, "interface conversion:") ||
		strings.Contains(msg, "invalid memory address") ||
		strings.Contains(msg, "hash of unhashable type") ||
		strings.Contains(msg, "index out of range [") ||
		strings.Contains(msg, "slice bounds out of range")
}

// Eval reads and evaluates src in scope.
func Eval(scope *slip.Scope, src string) Outcome {
	return Try(func() slip.Object {
		code := slip.ReadString(src, scope)
		return code.Eval(scope, nil)
	})
}

// EvalForms reads src and evaluates the top-level forms one after another; unlike Code.Eval a top-level
// nil form evaluates to nil instead of being skipped.
func EvalForms(scope *slip.Scope, src string) Outcome {
	return Try(func() (result slip.Object) {
		for _, obj := range slip.ReadString(src, scope) {
			if obj == nil {
				result = nil
				continue
			}
			result = obj.Eval(scope, 0)
		}
		return
	})
}

// ReadForms reads src once; the objects can be evaluated several times with EvalObjects (the same code objects,
// whose argument slots slip compiles in place during the first evaluation).
func ReadForms(scope *slip.Scope, src string) (code slip.Code, o Outcome) {
	o = Try(func() slip.Object {
		code = slip.ReadString(src, scope)
		return nil
	})
	return
}

// EvalObjects evaluates already read top-level forms one after another (see EvalForms).
func EvalObjects(scope *slip.Scope, code slip.Code) Outcome {
	return Try(func() (result slip.Object) {
		for _, obj := range code {
			if obj == nil {
				result = nil
				continue
			}
			result = obj.Eval(scope, 0)
		}
		return
	})
}

// MustEval evaluates and panics on anything but a value (harness set-up).
func MustEval(scope *slip.Scope, src string) slip.Object {
	o := Eval(scope, src)
	if o.Kind != Value {
		panic(fmt.Sprintf("set-up form failed: %s => %s", src, o))
	}
	return o.Val
}

// Show prints an object with slip's own default printer (for messages only).
func Show(obj slip.Object) string {
	if obj == nil {
		return "nil"
	}
	defer func() { _ = recover() }()
	return slip.ObjectString(obj)
}

// ---- observation package vt -------------------------------------------

// Event is one trace entry.
type Event struct {
	ID  string
	Val string
}

var (
	traceMu sync.Mutex
	trace   []Event
	// VT is the observation package.
	VT *slip.Package
	// Render is used to render the traced value (set by package sx to avoid a cycle).
	Render = func(o slip.Object) string { return Show(o) }
)

// ResetTrace clears the trace.
func ResetTrace() {
	traceMu.Lock()
	trace = trace[:0]
	traceMu.Unlock()
}

// Trace returns a copy of the trace.
func Trace() []Event {
	traceMu.Lock()
	defer traceMu.Unlock()
	return append([]Event(nil), trace...)
}

// TraceString renders the trace compactly.
func TraceString() string {
	var b strings.Builder
	for i, e := range Trace() {
		if i > 0 {
			b.WriteByte(' ')
		}
		b.WriteString(e.ID)
		if e.Val != "" {
			b.WriteByte('=')
			b.WriteString(e.Val)
		}
	}
	return b.String()
}

type mark struct {
	slip.Function
}

func (f *mark) Call(s *slip.Scope, args slip.List, depth int) (result slip.Object) {
	slip.CheckArgCount(s, depth, f, args, 1, 2)
	e := Event{ID: Render(args[0])}
	if len(args) == 2 {
		result = args[1]
		e.Val = Render(result)
	}
	traceMu.Lock()
	trace = append(trace, e)
	traceMu.Unlock()
	return
}

func init() {
	VT = slip.DefPackage("vt", []string{}, "verification observation primitives")
	VT.Use(&slip.CLPkg)
	VT.Define(
		func(args slip.List) slip.Object {
			f := mark{Function: slip.Function{Name: "mark", Args: args}}
			f.Self = &f
			return &f
		},
		&slip.FuncDoc{
			Name:   "mark",
			Args:   []*slip.DocArg{{Name: "id", Type: "object"}, {Name: "&optional"}, {Name: "value", Type: "object"}},
			Return: "object",
			Text:   "appends (id value) to the Go side trace and returns value",
		})
	if fi := VT.GetFunc("mark"); fi != nil {
		fi.Export = true
	}
}
