package c15

import (
	"encoding/json"
	"fmt"
	"math/big"
	"os"
	"runtime"
	"strconv"
	"strings"
	"testing"
	"time"

	"github.com/ohler55/slip"

	"verif/harness/internal/ev"
	"verif/harness/internal/h"
	"verif/harness/internal/reffmt"
	"verif/harness/internal/refnum"
)

func TestMain(m *testing.M) { h.Main(m, "C15") }

// Case is a control string with its arguments. Eng: the comparison ignores what CLHS leaves open in
// spelled numbers (hyphens, commas, "and", minus/negative). One: only destination nil is exercised
// (exhaustive enumerations); otherwise nil, t and a string stream must all give the same text.
type Case struct {
	Ctrl string       `json:"ctrl"`
	Args []reffmt.Arg `json:"args"`
	Eng  bool         `json:"eng,omitempty"`
	One  bool         `json:"one,omitempty"`
	// Bind: index into printerBinds, bindings of printer control variables around the call. ~A and ~S must agree with
	// princ and prin1 under the same bindings; the integer directives bind their own base and are not affected.
	Bind int `json:"bind,omitempty"`
}

var printerBinds = []string{"", "(*print-base* 16)", "(*print-base* 2) (*print-radix* t)", "(*print-radix* t)", "(*print-case* :upcase)", "(*print-base* 36) (*print-case* :capitalize)", "(*print-escape* nil) (*print-base* 8)"}

func (c Case) bind() string {
	if c.Bind > 0 && c.Bind < len(printerBinds) {
		return printerBinds[c.Bind]
	}
	return ""
}

func (c Case) String() string {
	parts := make([]string, len(c.Args))
	for i, a := range c.Args {
		parts[i] = a.Lisp()
	}
	if b := c.bind(); b != "" {
		return fmt.Sprintf("(let (%s) (format nil %q %s))", b, c.Ctrl, strings.Join(parts, " "))
	}
	return fmt.Sprintf("(format nil %q %s)", c.Ctrl, strings.Join(parts, " "))
}

func object(a reffmt.Arg) slip.Object {
	switch a.K {
	case "int":
		return refnum.Object(a.S)
	case "str":
		return slip.String(a.S)
	case "chr":
		return slip.Character([]rune(a.S)[0])
	case "sym":
		return slip.Symbol(a.S)
	case "t":
		return slip.True
	case "list":
		if len(a.L) == 0 {
			return nil
		}
		l := make(slip.List, len(a.L))
		for i, e := range a.L {
			l[i] = object(e)
		}
		return l
	}
	return nil
}

// printer asks slip's princ / prin1 (to a string stream) for the text of an argument.
type printer struct {
	cache map[string]string
	err   string
	bind  string
}

var thePrinter = &printer{cache: map[string]string{}}

func (p *printer) text(fn string, a reffmt.Arg) string {
	kb, _ := json.Marshal(a)
	key := fn + p.bind + string(kb)
	if s, ok := p.cache[key]; ok {
		return s
	}
	scope := slip.NewScope()
	scope.Let(slip.Symbol("x"), object(a))
	out := ev.Eval(scope, "(let ("+p.bind+") (let ((s (make-string-output-stream))) ("+fn+" x s) (get-output-stream-string s)))")
	s, ok := out.Val.(slip.String)
	if out.Kind != ev.Value || !ok {
		p.err = fmt.Sprintf("(%s %s stream) => %s", fn, a.Lisp(), out)
		return "<<" + fn + " failed>>"
	}
	if len(p.cache) > 200000 {
		p.cache = map[string]string{}
	}
	p.cache[key] = string(s)
	return string(s)
}

func (p *printer) Princ(a reffmt.Arg) string { return p.text("princ", a) }
func (p *printer) Prin1(a reffmt.Arg) string { return p.text("prin1", a) }

var policies = func() (ps []reffmt.Policy) {
	// policy 0 is what slip is observed to do; the others are the alternatives the documents allow
	for i := 0; i < 8; i++ {
		ps = append(ps, reffmt.Policy{AmpAtStart: i&1 == 0, TabAtCol: i&2 == 0, Upper: i&4 != 0})
	}
	return
}()

func hard(a reffmt.Arg) bool {
	switch a.K {
	case "int":
		v, _ := a.Big()
		return v.Sign() < 0 || v.Cmp(big.NewInt(1000)) >= 0
	case "list":
		for _, e := range a.L {
			if hard(e) {
				return true
			}
		}
	}
	return false
}

const (
	formNil    = "(format nil c%s)"
	formT      = "(let ((s (make-string-output-stream))) (list (let ((*standard-output* s)) (format t c%s)) (get-output-stream-string s)))"
	formStream = "(let ((s (make-string-output-stream))) (list (format s c%s) (get-output-stream-string s)))"
)

// guarded evaluates src and turns a format call that does not return into a violation (the process
// exits: a runaway control loop inside slip appends to its buffer for ever). The clock is only a
// watchdog: a call counts as hanging when it is still running after 20 s observed in at least 40
// separate wake-ups of the watchdog (so a stalled process is not mistaken for a hang), or when the
// heap has grown by more than 3 GB during the call.
func guarded(sub string, c Case, scope *slip.Scope, src string) ev.Outcome {
	done := make(chan ev.Outcome, 1)
	go func() { done <- ev.Eval(scope, src) }()
	select {
	case o := <-done:
		return o
	case <-time.After(200 * time.Millisecond):
	}
	var m0, m runtime.MemStats
	runtime.ReadMemStats(&m0)
	tick := time.NewTicker(500 * time.Millisecond)
	defer tick.Stop()
	for wakes := 0; ; wakes++ {
		select {
		case o := <-done:
			return o
		case <-tick.C:
		}
		runtime.ReadMemStats(&m)
		if wakes >= 40 || (m.HeapAlloc > m0.HeapAlloc && m.HeapAlloc-m0.HeapAlloc > 3<<30) {
			select {
			case o := <-done:
				return o
			default:
			}
			h.Violate(sub, c, c.String()+": format does not return")
			h.Flush()
			os.Exit(1)
		}
	}
}

func runAs(sub string) func(Case) *h.Result {
	return func(c Case) *h.Result { return run(sub, c) }
}

func run(sub string, c Case) *h.Result {
	res := &h.Result{}
	sh, ok := reffmt.Analyze(c.Ctrl)
	if !ok {
		return h.Fail("%s: control string does not parse in the reference model", c)
	}
	anyHard := false
	for _, a := range c.Args {
		if hard(a) {
			anyHard = true
		}
	}
	res.NonTrivial = (sh.ParamOrMod && anyHard) || sh.Dirs >= 2 || sh.Depth >= 1
	seen := map[string]bool{}
	for _, k := range sh.Kinds {
		if !seen[k] {
			seen[k] = true
			res.Classes = append(res.Classes, "dir:"+k)
		}
	}
	res.Classes = append(res.Classes, "dirs:"+strconv.Itoa(min(sh.Dirs, 6)), "depth:"+strconv.Itoa(sh.Depth))

	thePrinter.err = ""
	thePrinter.bind = c.bind()
	if c.Bind > 0 {
		res.Classes = append(res.Classes, "printer-variables-bound")
	}
	want, info := reffmt.Render(c.Ctrl, c.Args, thePrinter, policies[0])
	if thePrinter.err != "" {
		res.Err = fmt.Sprintf("%s: %s", c, thePrinter.err)
		return res
	}
	if info.Undef != "" {
		// outside the sound domain: nothing is asserted
		res.NonTrivial = false
		res.Classes = append(res.Classes, "outside-model")
		return res
	}
	for f := range info.Feat {
		res.Classes = append(res.Classes, "feat:"+f)
	}
	if tag := excluded(c, sh, info); tag != "" {
		res.Skip = tag
		return res
	}

	scope := slip.NewScope()
	scope.Let(slip.Symbol("c"), slip.String(c.Ctrl))
	var names strings.Builder
	for i, a := range c.Args {
		n := "a" + strconv.Itoa(i)
		scope.Let(slip.Symbol(n), object(a))
		names.WriteString(" " + n)
	}
	forms := []string{formNil, formT, formStream}
	if c.One {
		forms = forms[:1]
	}
	res.Evals = len(forms)
	var texts []string
	for i, f := range forms {
		out := guarded(sub, c, scope, "(let ("+c.bind()+") "+fmt.Sprintf(f, names.String())+")")
		if out.Kind != ev.Value {
			res.Err = fmt.Sprintf("%s [destination %d]: expected %q, got %s", c, i, want, out)
			return res
		}
		var s slip.Object = out.Val
		if i > 0 {
			l, isList := out.Val.(slip.List)
			if !isList || len(l) != 2 || l[0] != nil {
				res.Err = fmt.Sprintf("%s [destination %d]: format to a stream must return nil, got %s", c, i, out)
				return res
			}
			s = l[1]
		}
		str, isStr := s.(slip.String)
		if !isStr {
			res.Err = fmt.Sprintf("%s [destination %d]: expected the string %q, got %s", c, i, want, out)
			return res
		}
		texts = append(texts, string(str))
	}
	for i := 1; i < len(texts); i++ {
		if texts[i] != texts[0] {
			res.Err = fmt.Sprintf("%s: destination nil gives %q, destination %d gives %q", c, texts[0], i, texts[i])
			return res
		}
	}
	got := texts[0]
	norm := func(s string) string {
		if c.Eng {
			return reffmt.NormEnglish(s)
		}
		return s
	}
	if norm(got) == norm(want) {
		return res
	}
	for _, pol := range policies[1:] {
		alt, _ := reffmt.Render(c.Ctrl, c.Args, thePrinter, pol)
		if norm(got) == norm(alt) {
			return res
		}
	}
	res.Err = fmt.Sprintf("%s: expected %q, got %q", c, want, got)
	return res
}

// excluded names the classes of cases explained by open findings (predicates over the case and the
// reference rendering, never over slip's outcome).
func excluded(c Case, sh reffmt.Shape, info *reffmt.Info) string {
	switch {
	case info.Feat["caret-args-remain"] > 0 && h.ExclOn("caret-unconditional"):
		return "caret-unconditional"
	}
	return ""
}

var (
	compose     = h.Prop[Case]{Name: "compose", Gen: genCompose, Run: runAs("compose")}
	integer     = h.Prop[Case]{Name: "integer", Gen: genInteger, Run: runAs("integer")}
	english     = h.Prop[Case]{Name: "english", Gen: genEnglish, Run: runAs("english")}
	integerGrid = h.Prop[Case]{Name: "integer-grid", Run: runAs("integer-grid")}
	englishEnum = h.Prop[Case]{Name: "english-enum", Run: runAs("english-enum")}
	romanEnum   = h.Prop[Case]{Name: "roman-enum", Run: runAs("roman-enum")}
)

func TestC15(t *testing.T) {
	h.Rule("control strings are produced by a directive grammar (~A ~S ~D ~B ~O ~X ~nR ~R ~C ~% ~& ~| ~~ ~T ~* ~? ~( ~[ ~{ ~^ ~P; parameters as numbers, 'c, v, V, #; " +
		"1-4 items, blocks nested to depth 2) together with exactly the arguments they consume; integers from the C05 boundary table, small, 8-digit and random up to 230 bits; " +
		"strings, characters, symbols, lists of length 0-4. Oracle: internal/reffmt, an independent parser and renderer of CLHS 22.3 with its own English speller and Roman converter; " +
		"~A/~S text is taken from slip's princ/prin1; destinations nil, t and a string stream must give the same text. " +
		"Non-trivial: a directive with a parameter or modifier applied to an argument that is negative or >= 1000 (bignums included), or at least 2 directives, or a block. Distinct by (control, arguments).")
	h.Assume("math/big renders integers correctly in radix 2..36")
	h.Assume("arguments are built through slip's exported Go types and bound with Scope.Let; the call (format dest c a0 ...) is read and evaluated as Lisp text")
	h.Assume("the text of ~A / ~S for an argument is what slip's princ / prin1 write to a string stream for it (their agreement is the property; the printer itself is C03)")

	h.RunProp(t, integerGrid, 0)
	h.RunProp(t, englishEnum, 0)
	h.RunProp(t, romanEnum, 0)
	h.RunProp(t, integer, h.N(25000, 400000))
	h.RunProp(t, english, h.N(15000, 250000))
	h.RunProp(t, compose, h.N(60000, 900000))

	if h.C.Shard != 0 {
		return
	}
	h.Enumerate(t, integerGrid, func(yield func(Case) bool) {
		type pc struct {
			p    string
			args []Arg
		}
		combos := []pc{{"", nil}, {"30", nil}, {"30,'0", nil}, {"v,'*", []Arg{reffmt.I(25)}}, {",,'_,4", nil}, {"12,'.,' ,1", nil}, {",,,v", []Arg{reffmt.I(2)}}, {"#", nil}}
		for _, g := range refnum.Boundary() {
			for _, d := range []string{"D", "B", "O", "X", "R"} {
				for _, m := range []string{"", ":", "@", ":@"} {
					for _, cb := range combos {
						p := cb.p
						if d == "R" {
							p = "36," + p
							if cb.p == "" {
								p = "7"
							}
						}
						c := Case{Ctrl: "~" + p + m + d, Args: append(append([]Arg{}, cb.args...), reffmt.Int(g))}
						if !yield(c) {
							return
						}
					}
				}
			}
		}
	})
	h.Enumerate(t, englishEnum, func(yield func(Case) bool) {
		for n := int64(0); n <= 100000; n++ {
			if !yield(Case{Ctrl: "~R", Args: []Arg{reffmt.I(n)}, Eng: true, One: true}) ||
				!yield(Case{Ctrl: "~:R", Args: []Arg{reffmt.I(n)}, Eng: true, One: true}) {
				return
			}
		}
	})
	h.Enumerate(t, romanEnum, func(yield func(Case) bool) {
		for n := int64(1); n <= 3999; n++ {
			if !yield(Case{Ctrl: "~@R", Args: []Arg{reffmt.I(n)}, One: true}) ||
				!yield(Case{Ctrl: "~:@R", Args: []Arg{reffmt.I(n)}, One: true}) {
				return
			}
		}
	})
}

// TestModel pins the reference model itself on examples taken from CLHS 22.3.
func TestModel(t *testing.T) {
	type ex struct {
		ctrl string
		args []reffmt.Arg
		want string
	}
	I, S, L := reffmt.I, reffmt.Str, reffmt.List
	exs := []ex{
		{"~D tr~:@P/~D win~:P", []reffmt.Arg{I(7), I(1)}, "7 tries/1 win"},
		{"~D tr~:@P/~D win~:P", []reffmt.Arg{I(1), I(0)}, "1 try/0 wins"},
		{"~:D", []reffmt.Arg{I(-1234567)}, "-1,234,567"},
		{"~,,'.,4:d", []reffmt.Arg{I(1234567)}, "123.4567"},
		{"~10,'*@d", []reffmt.Arg{I(5)}, "********+5"},
		{"~R", []reffmt.Arg{I(4)}, "four"},
		{"~:R", []reffmt.Arg{I(4)}, "fourth"},
		{"~:R", []reffmt.Arg{I(120)}, "one hundred twentieth"},
		{"~R", []reffmt.Arg{I(1000001)}, "one million one"},
		{"~@R", []reffmt.Arg{I(1999)}, "MCMXCIX"},
		{"~:@R", []reffmt.Arg{I(4)}, "IIII"},
		{"~2,8,'0R", []reffmt.Arg{I(5)}, "00000101"},
		{"~{~A~^, ~}", []reffmt.Arg{L(I(1), I(2), I(3))}, "1, 2, 3"},
		{"~:{<~A~^,~A>~}", []reffmt.Arg{L(L(I(1), I(2)), L(I(3)))}, "<1,2><3"},
		{"~@{~A~^ ~}", []reffmt.Arg{I(1), I(2)}, "1 2"},
		{"~1{~A~}", []reffmt.Arg{L(I(1), I(2))}, "1"},
		{"~{x~:}", []reffmt.Arg{reffmt.Nil()}, "x"},
		{"~[a~;b~:;c~]", []reffmt.Arg{I(5)}, "c"},
		{"~[a~;b~]", []reffmt.Arg{I(5)}, ""},
		{"~:[f~;t~]", []reffmt.Arg{reffmt.Nil()}, "f"},
		{"~@[<~A>~]~A", []reffmt.Arg{I(3), I(4)}, "<3>4"},
		{"~@[<~A>~]~A", []reffmt.Arg{reffmt.Nil(), I(4)}, "4"},
		{"~#[none~;one~:;many~]", []reffmt.Arg{I(1)}, "one"},
		{"~?~A", []reffmt.Arg{S("<~A ~D>"), L(S("Foo"), I(5)), I(7)}, "<Foo 5>7"},
		{"~@?~A", []reffmt.Arg{S("<~A ~D>"), S("Foo"), I(5), I(7)}, "<Foo 5>7"},
		{"~(HELLO wOrld~)", nil, "hello world"},
		{"~:(hello wOrld-foo~)", nil, "Hello World-Foo"},
		{"~@(  hello WORLD~)", nil, "  Hello world"},
		{"~:@(hello~)", nil, "HELLO"},
		{"ab~5Tc", nil, "ab   c"},
		{"abcdef~3Tc", nil, "abcdef c"},
		{"ab~2,4@Tc", nil, "ab  c"},
		{"ab~3,4@Tc", nil, "ab      c"},
		{"a~&b~2&c~%~&d", nil, "a\nb\n\nc\nd"},
		{"~A~A~2:*~A~0@*~A~1*~A", []reffmt.Arg{I(1), I(2), I(3)}, "12113"},
		{"~v,vd", []reffmt.Arg{I(4), reffmt.Chr('x'), I(7)}, "xxx7"},
		{"~v,vd", []reffmt.Arg{reffmt.Nil(), reffmt.Nil(), I(7)}, "7"},
		{"~3~~2%", nil, "~~~\n\n"},
		{"~5,2,1,'.a|", []reffmt.Arg{S("ab")}, "ab...|"},
		{"~5,2,1,'.@a|", []reffmt.Arg{S("ab")}, "...ab|"},
	}
	pr := fakePrinter{}
	for _, e := range exs {
		got, info := reffmt.Render(e.ctrl, e.args, pr, reffmt.Policy{})
		if info.Undef != "" || got != e.want {
			t.Errorf("model: %q %v => %q (undef %q), want %q", e.ctrl, e.args, got, info.Undef, e.want)
		}
	}
	if s := reffmt.English(new(big.Int).Sub(reffmt.EnglishLimit, big.NewInt(1)), false); !strings.HasPrefix(s, "nine hundred ninety nine vigintillion nine hundred ninety nine novemdecillion") {
		t.Errorf("english limit: %s", s)
	}
}

type fakePrinter struct{}

func (fakePrinter) Princ(a reffmt.Arg) string {
	if a.K == "str" || a.K == "chr" {
		return a.S
	}
	return a.Lisp()
}
func (fakePrinter) Prin1(a reffmt.Arg) string { return a.Lisp() }
