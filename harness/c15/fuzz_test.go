package c15

import (
	"math/big"
	"regexp"
	"strings"
	"testing"
	"unicode/utf8"

	"pgregory.net/rapid"

	"verif/harness/internal/h"
	"verif/harness/internal/reffmt"
)

// Native fuzz target: control string and arguments decoded from the fuzzer's bytes, judged by the same oracle as the
// generated cases (internal/reffmt; a control string the reference does not define asserts nothing).
// bytes: [number of arguments 0-4] then per argument [kind] payload, the rest is the control string.

var (
	fuzzSyms  = []string{"abc", "x", ":key", "nil", "t", "foo-bar"}
	longDigit = regexp.MustCompile(`[0-9]{4,}`)
)

func decodeArg(b []byte, depth int, small bool) (a reffmt.Arg, rest []byte, ok bool) {
	if len(b) < 1 {
		return a, nil, false
	}
	k := b[0] % 8
	b = b[1:]
	switch k {
	case 0, 1: // small integer
		if len(b) < 1 {
			return a, nil, false
		}
		return reffmt.I(int64(int8(b[0]))), b[1:], true
	case 2: // integer of up to 12 bytes
		if len(b) < 1 {
			return a, nil, false
		}
		n := int(b[0]%12) + 1
		b = b[1:]
		if len(b) < n+1 {
			return a, nil, false
		}
		v := new(big.Int).SetBytes(b[1 : n+1])
		if b[0]&1 == 1 {
			v.Neg(v)
		}
		if small {
			v.Rem(v, big.NewInt(1000))
		}
		return reffmt.Int(v), b[n+1:], true
	case 3: // string
		if len(b) < 1 {
			return a, nil, false
		}
		n := int(b[0] % 9)
		b = b[1:]
		if len(b) < n || !utf8.Valid(b[:n]) {
			return a, nil, false
		}
		return reffmt.Str(string(b[:n])), b[n:], true
	case 4: // character
		r, size := utf8.DecodeRune(b)
		if r == utf8.RuneError || r < 0x20 || r == 0x7f {
			return a, nil, false
		}
		return reffmt.Chr(r), b[size:], true
	case 5:
		if len(b) < 1 {
			return a, nil, false
		}
		return reffmt.Sym(fuzzSyms[int(b[0])%len(fuzzSyms)]), b[1:], true
	case 6:
		return reffmt.Nil(), b, true
	}
	// list
	if len(b) < 1 || depth >= 2 {
		return a, nil, false
	}
	n := int(b[0] % 5)
	b = b[1:]
	l := make([]reffmt.Arg, 0, n)
	for i := 0; i < n; i++ {
		var e reffmt.Arg
		if e, b, ok = decodeArg(b, depth+1, small); !ok {
			return a, nil, false
		}
		l = append(l, e)
	}
	if len(l) == 0 {
		return reffmt.Nil(), b, true
	}
	return reffmt.List(l...), b, true
}

func decodeFormat(b []byte) (c Case, ok bool) {
	if len(b) < 2 {
		return c, false
	}
	n := int(b[0] % 5)
	b = b[1:]
	// the control string is the tail; find it after the arguments
	args := make([]reffmt.Arg, 0, n)
	var probe = b
	for i := 0; i < n; i++ {
		var a reffmt.Arg
		if a, probe, ok = decodeArg(probe, 0, false); !ok {
			return c, false
		}
		args = append(args, a)
	}
	ctrl := probe
	if len(ctrl) == 0 || len(ctrl) > 48 || !utf8.Valid(ctrl) || !strings.Contains(string(ctrl), "~") {
		return c, false
	}
	c.Ctrl = string(ctrl)
	if longDigit.MatchString(c.Ctrl) {
		return c, false // a width of 10^4 and more only allocates
	}
	if strings.ContainsAny(c.Ctrl, "vV#") {
		// a prefix parameter may come from the arguments: keep integers small
		args = args[:0]
		probe = b
		for i := 0; i < n; i++ {
			var a reffmt.Arg
			a, probe, _ = decodeArg(probe, 0, true)
			args = append(args, a)
		}
	}
	c.Args = args
	c.One = true
	// spelled numbers: hyphens, commas, "and" and minus/negative are left open by CLHS (the same normalisation is
	// applied to both texts, so it is harmless where nothing is spelled)
	c.Eng = strings.ContainsAny(c.Ctrl, "rR")
	if _, parses := reffmt.Analyze(c.Ctrl); !parses {
		return c, false
	}
	return c, true
}

func encodeArg(a reffmt.Arg) []byte {
	switch a.K {
	case "int":
		v, _ := a.Big()
		if v.IsInt64() && v.Int64() >= -128 && v.Int64() <= 127 {
			return []byte{0, byte(int8(v.Int64()))}
		}
		mag := new(big.Int).Abs(v).Bytes()
		if len(mag) > 12 {
			mag = mag[len(mag)-12:]
		}
		sign := byte(0)
		if v.Sign() < 0 {
			sign = 1
		}
		return append([]byte{2, byte(len(mag) - 1), sign}, mag...)
	case "str":
		s := a.S
		for len(s) > 8 {
			_, size := utf8.DecodeLastRuneInString(s)
			s = s[:len(s)-size]
		}
		return append([]byte{3, byte(len(s))}, s...)
	case "chr":
		return append([]byte{4}, a.S...)
	case "sym":
		for i, s := range fuzzSyms {
			if s == a.S {
				return []byte{5, byte(i)}
			}
		}
		return []byte{5, 0}
	case "list":
		l := a.L
		if len(l) > 4 {
			l = l[:4]
		}
		out := []byte{7, byte(len(l))}
		for _, e := range l {
			out = append(out, encodeArg(e)...)
		}
		return out
	}
	return []byte{6}
}

func encodeFormat(c Case) []byte {
	args := c.Args
	if len(args) > 4 {
		args = args[:4]
	}
	out := []byte{byte(len(args))}
	for _, a := range args {
		out = append(out, encodeArg(a)...)
	}
	return append(out, c.Ctrl...)
}

var composeFuzz = h.Prop[Case]{Name: "compose-fuzz", Run: runAs("compose-fuzz")}

func FuzzFormat(f *testing.F) {
	var seeds [][]byte
	for _, g := range []*rapid.Generator[Case]{rapid.Custom(genCompose), rapid.Custom(genInteger), rapid.Custom(genEnglish)} {
		for i := 1; i <= 40; i++ {
			c := g.Example(i)
			if c.Bind != 0 {
				continue
			}
			b := encodeFormat(c)
			if d, ok := decodeFormat(b); ok && d.Ctrl == c.Ctrl {
				seeds = append(seeds, b)
			}
		}
	}
	for _, p := range []h.Prop[Case]{compose, integer, english} {
		h.Warm(p)
	}
	h.FuzzProp(f, "c15", composeFuzz, decodeFormat, seeds)
}
