package c15

import (
	"math/big"
	"strconv"
	"strings"

	"pgregory.net/rapid"

	"verif/harness/internal/reffmt"
	"verif/harness/internal/refnum"
)

type Arg = reffmt.Arg

// piece is a fragment of a control string together with a generator of exactly the arguments it
// consumes (in order). Cases are legal by construction: every directive finds arguments of a kind it
// accepts.
type piece struct {
	ctrl  string
	args  func(rt *rapid.T) []Arg
	min   int  // fewest arguments consumed
	fixed bool // always exactly min
	caret bool // a bare ~^
}

func noArgs(*rapid.T) []Arg { return nil }

func lit(s string) piece { return piece{ctrl: s, args: noArgs, fixed: true} }

// seq is a sequence of pieces sharing one argument list.
type seq struct{ items []piece }

func (s seq) ctrl() string {
	var b strings.Builder
	for _, p := range s.items {
		b.WriteString(p.ctrl)
	}
	return b.String()
}

// gen draws the arguments; with mayStop the list may end at a ~^ (which then terminates the enclosing construct).
func (s seq) gen(rt *rapid.T, mayStop bool) []Arg {
	var out []Arg
	for _, p := range s.items {
		if p.caret {
			if mayStop && rapid.IntRange(0, 2).Draw(rt, "stop-at-caret") > 0 {
				return out
			}
			continue
		}
		out = append(out, p.args(rt)...)
	}
	return out
}

func (s seq) min() (n int, fixed bool) {
	fixed = true
	for _, p := range s.items {
		n += p.min
		fixed = fixed && p.fixed
	}
	return
}

func (s seq) piece() piece {
	n, f := s.min()
	return piece{ctrl: s.ctrl(), args: func(rt *rapid.T) []Arg { return s.gen(rt, false) }, min: n, fixed: f}
}

// ---------------------------------------------------------------- atoms

const litAlphabet = "abcdefghijklmnopqrstuvwxyzABCDEFGHIJKLMNOPQRSTUVWXYZ  0123456789-_.,;:!?()[]{}<>/|'\"#@$%^&*+=\n"

func genText(rt *rapid.T, label string, maxLen int) string {
	n := rapid.IntRange(0, maxLen).Draw(rt, label+"-len")
	rs := make([]rune, n)
	for i := range rs {
		k := rapid.IntRange(0, 39).Draw(rt, label+"-k")
		switch {
		case k < 20:
			rs[i] = rune("abcdeXYZ hello World"[rapid.IntRange(0, 19).Draw(rt, label+"-c")])
		case k == 39:
			rs[i] = []rune("éλ☃")[rapid.IntRange(0, 2).Draw(rt, label+"-u")]
		default:
			rs[i] = rune(litAlphabet[rapid.IntRange(0, len(litAlphabet)-1).Draw(rt, label+"-c")])
		}
	}
	return string(rs)
}

func genLit(rt *rapid.T) piece {
	s := genText(rt, "lit", 6)
	if s == "" {
		s = " "
	}
	return lit(s)
}

var tenPow66 = reffmt.EnglishLimit

func genInt(rt *rapid.T, label string) *big.Int {
	switch rapid.IntRange(0, 9).Draw(rt, label+"-kind") {
	case 0, 1, 2:
		return big.NewInt(int64(rapid.IntRange(-20, 20).Draw(rt, label+"-small")))
	case 3, 4:
		b := refnum.Boundary()
		v := new(big.Int).Set(b[rapid.IntRange(0, len(b)-1).Draw(rt, label+"-b")])
		return v.Add(v, big.NewInt(int64(rapid.IntRange(-2, 2).Draw(rt, label+"-off"))))
	case 5, 6:
		v := big.NewInt(int64(rapid.IntRange(0, 99999999).Draw(rt, label+"-mid")))
		if rapid.Bool().Draw(rt, label+"-neg") {
			v.Neg(v)
		}
		return v
	}
	bits := rapid.IntRange(1, 230).Draw(rt, label+"-bits")
	v := new(big.Int)
	for i := 0; i < (bits+31)/32; i++ {
		v.Lsh(v, 32)
		v.Or(v, big.NewInt(int64(rapid.Uint32().Draw(rt, label+"-w"))))
	}
	v.Rsh(v, uint((32-bits%32)%32))
	v.SetBit(v, bits-1, 1)
	if rapid.Bool().Draw(rt, label+"-neg") {
		v.Neg(v)
	}
	return v
}

var (
	symbols = []string{"abc", "foo-bar", "x1", ":key", "car", "*v*"}
	chars   = []rune{'a', 'Z', '0', '*', ' ', '\n', '~', ',', '\'', 'é', '(', 'x'}
)

func genAtom(rt *rapid.T, label string) Arg {
	switch rapid.IntRange(0, 9).Draw(rt, label+"-atom") {
	case 0, 1, 2:
		return reffmt.Int(genInt(rt, label))
	case 3, 4, 5:
		return reffmt.Str(genText(rt, label+"-s", 6))
	case 6:
		return reffmt.Chr(chars[rapid.IntRange(0, len(chars)-1).Draw(rt, label+"-chr")])
	case 7:
		return reffmt.Sym(symbols[rapid.IntRange(0, len(symbols)-1).Draw(rt, label+"-sym")])
	case 8:
		return Arg{K: "t"}
	}
	return reffmt.Nil()
}

func genAny(rt *rapid.T, label string, depth int) Arg {
	if depth < 2 && rapid.IntRange(0, 4).Draw(rt, label+"-islist") == 0 {
		n := rapid.IntRange(0, 4).Draw(rt, label+"-n")
		if n == 0 {
			return reffmt.Nil()
		}
		l := make([]Arg, n)
		for i := range l {
			l[i] = genAny(rt, label+"e", depth+1)
		}
		return reffmt.List(l...)
	}
	return genAtom(rt, label)
}

func genNonNil(rt *rapid.T, label string) Arg {
	a := genAny(rt, label, 0)
	if a.IsNil() {
		return reffmt.I(7)
	}
	return a
}

// ---------------------------------------------------------------- prefix parameters

type params struct {
	texts []string
	pre   []func(*rapid.T) []Arg
}

func (p *params) add(txt string, af func(*rapid.T) []Arg) {
	p.texts = append(p.texts, txt)
	if af != nil {
		p.pre = append(p.pre, af)
	}
}

func vname(rt *rapid.T) string {
	if rapid.IntRange(0, 5).Draw(rt, "V") == 0 {
		return "V"
	}
	return "v"
}

// num adds a numeric parameter in lo..hi as a literal, v (integer or nil = omitted) or #.
func (p *params) num(rt *rapid.T, label string, lo, hi int, nilOK, hashOK bool) {
	k := rapid.IntRange(0, 11).Draw(rt, label+"-form")
	switch {
	case k >= 8 && k <= 9:
		p.add(vname(rt), func(rt *rapid.T) []Arg {
			return []Arg{reffmt.I(int64(rapid.IntRange(lo, hi).Draw(rt, label+"-v")))}
		})
	case k == 10 && nilOK:
		p.add(vname(rt), func(rt *rapid.T) []Arg { return []Arg{reffmt.Nil()} })
	case k == 11 && hashOK:
		p.add("#", nil)
	default:
		txt := strconv.Itoa(rapid.IntRange(lo, hi).Draw(rt, label))
		if k == 7 {
			txt = "+" + txt // prefix parameters are optionally signed
		}
		p.add(txt, nil)
	}
}

var padChars = []rune{' ', '0', '*', 'x', '_', '.', ',', '\'', ':', '@', 'v', '#', '~', 'd', '-', 'é', '(', ']', '}', ';'}

func (p *params) char(rt *rapid.T, label string) {
	c := padChars[rapid.IntRange(0, len(padChars)-1).Draw(rt, label)]
	switch rapid.IntRange(0, 9).Draw(rt, label+"-form") {
	case 8:
		p.add(vname(rt), func(rt *rapid.T) []Arg { return []Arg{reffmt.Chr(c)} })
	case 9:
		p.add(vname(rt), func(rt *rapid.T) []Arg { return []Arg{reffmt.Nil()} })
	default:
		p.add("'"+string(c), nil)
	}
}

func (p *params) omit() { p.add("", nil) }

func (p *params) text(rt *rapid.T) string {
	t := p.texts
	for len(t) > 0 && t[len(t)-1] == "" {
		t = t[:len(t)-1]
	}
	s := strings.Join(t, ",")
	if len(t) > 0 && len(t) < 4 && rapid.IntRange(0, 9).Draw(rt, "trailing-comma") == 0 {
		s += "," // "~5,d": the last parameter is omitted
	}
	return s
}

func (p *params) args(rt *rapid.T) []Arg {
	var out []Arg
	for _, f := range p.pre {
		out = append(out, f(rt)...)
	}
	return out
}

func mods(rt *rapid.T, colon, at bool) string {
	switch {
	case colon && at:
		if rapid.Bool().Draw(rt, "mod-order") {
			return "@:"
		}
		return ":@"
	case colon:
		return ":"
	case at:
		return "@"
	}
	return ""
}

func dch(rt *rapid.T, c byte) string {
	if rapid.Bool().Draw(rt, "lower") {
		return strings.ToLower(string(c))
	}
	return string(c)
}

// ---------------------------------------------------------------- single directives

func pA(rt *rapid.T) piece {
	var ps params
	n := rapid.SampledFrom([]int{0, 0, 0, 1, 1, 2, 3, 4}).Draw(rt, "A-nparams")
	for i := 0; i < n; i++ {
		if i < n-1 && rapid.IntRange(0, 3).Draw(rt, "A-omit") == 0 {
			ps.omit()
			continue
		}
		switch i {
		case 0:
			ps.num(rt, "mincol", 0, 12, true, true)
		case 1:
			ps.num(rt, "colinc", 1, 4, true, false)
		case 2:
			ps.num(rt, "minpad", 0, 3, true, true)
		case 3:
			ps.char(rt, "padchar")
		}
	}
	ctrl := "~" + ps.text(rt) + mods(rt, rapid.IntRange(0, 3).Draw(rt, "A-colon") == 0, rapid.IntRange(0, 2).Draw(rt, "A-at") == 0) +
		dch(rt, "AS"[rapid.IntRange(0, 1).Draw(rt, "A-or-S")])
	return piece{ctrl: ctrl, min: len(ps.pre) + 1, fixed: true, args: func(rt *rapid.T) []Arg {
		return append(ps.args(rt), genAny(rt, "A-arg", 0))
	}}
}

// pInt is ~D ~B ~O ~X or ~radixR with every parameter form.
func pInt(rt *rapid.T) piece {
	var ps params
	ch := "DBOXR"[rapid.IntRange(0, 4).Draw(rt, "int-dir")]
	if ch == 'R' {
		k := rapid.IntRange(0, 9).Draw(rt, "radix-form")
		switch {
		case k < 7:
			ps.add(strconv.Itoa(rapid.IntRange(2, 36).Draw(rt, "radix")), nil)
		default:
			ps.add(vname(rt), func(rt *rapid.T) []Arg { return []Arg{reffmt.I(int64(rapid.IntRange(2, 36).Draw(rt, "radix-v")))} })
		}
	}
	n := rapid.SampledFrom([]int{0, 0, 1, 1, 2, 3, 4, 4}).Draw(rt, "int-nparams")
	mincol := false
	for i := 0; i < n; i++ {
		if i < n-1 && rapid.IntRange(0, 3).Draw(rt, "int-omit") == 0 {
			ps.omit()
			continue
		}
		switch i {
		case 0:
			ps.num(rt, "mincol", 0, 40, true, true)
			mincol = true
		case 1:
			ps.char(rt, "padchar")
		case 2:
			ps.char(rt, "commachar")
		case 3:
			ps.num(rt, "interval", 1, 6, true, false)
		}
	}
	ctrl := "~" + ps.text(rt) + mods(rt, rapid.Bool().Draw(rt, "int-colon"), rapid.IntRange(0, 2).Draw(rt, "int-at") == 0) + dch(rt, ch)
	return piece{ctrl: ctrl, min: len(ps.pre) + 1, fixed: true, args: func(rt *rapid.T) []Arg {
		if !mincol && rapid.IntRange(0, 11).Draw(rt, "int-nonint") == 0 {
			var a Arg
			switch rapid.IntRange(0, 2).Draw(rt, "nonint-kind") {
			case 0:
				a = reffmt.Str(genText(rt, "nonint-s", 5))
			case 1:
				a = reffmt.Sym(symbols[rapid.IntRange(0, len(symbols)-1).Draw(rt, "nonint-sym")])
			default:
				a = reffmt.Chr(chars[rapid.IntRange(0, len(chars)-1).Draw(rt, "nonint-chr")])
			}
			return append(ps.args(rt), a)
		}
		return append(ps.args(rt), reffmt.Int(genInt(rt, "int-arg")))
	}}
}

// pSpell is ~R in words (0..20 so that hyphenation is not an issue inside compositions) or Roman.
func pSpell(rt *rapid.T) piece {
	colon := rapid.Bool().Draw(rt, "R-colon")
	at := rapid.Bool().Draw(rt, "R-at")
	ctrl := "~" + mods(rt, colon, at) + dch(rt, 'R')
	return piece{ctrl: ctrl, min: 1, fixed: true, args: func(rt *rapid.T) []Arg {
		if at {
			return []Arg{reffmt.I(int64(rapid.IntRange(1, 3999).Draw(rt, "roman")))}
		}
		return []Arg{reffmt.I(int64(rapid.IntRange(0, 20).Draw(rt, "spell")))} // negative: "minus" or "negative" is open, see sub-property english
	}}
}

func pC(rt *rapid.T) piece {
	k := rapid.IntRange(0, 3).Draw(rt, "C-mods")
	ctrl := "~" + mods(rt, k == 1 || k == 3, k == 2) + dch(rt, 'C')
	return piece{ctrl: ctrl, min: 1, fixed: true, args: func(rt *rapid.T) []Arg {
		return []Arg{reffmt.Chr(chars[rapid.IntRange(0, len(chars)-1).Draw(rt, "C-arg")])}
	}}
}

func pCount(rt *rapid.T) piece {
	var ps params
	if rapid.IntRange(0, 2).Draw(rt, "count-param") > 0 {
		ps.num(rt, "count", 0, 3, true, true)
	}
	ctrl := "~" + ps.text(rt) + string("%&|~"[rapid.SampledFrom([]int{0, 0, 1, 1, 1, 2, 3, 3}).Draw(rt, "count-dir")])
	return piece{ctrl: ctrl, min: len(ps.pre), fixed: true, args: ps.args}
}

func pT(rt *rapid.T) piece {
	var ps params
	at := rapid.Bool().Draw(rt, "T-at")
	if rapid.IntRange(0, 9).Draw(rt, "T-colnum-given") > 0 {
		ps.num(rt, "colnum", 0, 24, false, true)
	} else {
		ps.omit()
	}
	if at {
		if rapid.Bool().Draw(rt, "T-colinc-given") {
			ps.num(rt, "colinc", 1, 8, false, false)
		}
	} else if rapid.IntRange(0, 3).Draw(rt, "T-colinc-given") == 0 {
		ps.add("1", nil)
	}
	ctrl := "~" + ps.text(rt) + mods(rt, false, at) + dch(rt, 'T')
	return piece{ctrl: ctrl, min: len(ps.pre), fixed: true, args: ps.args}
}

func pP(rt *rapid.T) piece {
	colon := rapid.Bool().Draw(rt, "P-colon")
	at := rapid.Bool().Draw(rt, "P-at")
	ctrl := "~" + mods(rt, colon, at) + dch(rt, 'P')
	arg := func(rt *rapid.T) []Arg {
		switch rapid.IntRange(0, 5).Draw(rt, "P-arg") {
		case 0, 1:
			return []Arg{reffmt.I(1)}
		case 2:
			return []Arg{reffmt.I(int64(rapid.IntRange(-2, 3).Draw(rt, "P-n")))}
		case 3:
			return []Arg{reffmt.Int(genInt(rt, "P-big"))}
		}
		return []Arg{genAtom(rt, "P-any")}
	}
	if colon {
		// ~:P looks at the previous argument: print it first
		pre := []string{"~D", "~a", "~s"}[rapid.IntRange(0, 2).Draw(rt, "P-pre")]
		return piece{ctrl: pre + genLit(rt).ctrl + ctrl, min: 1, fixed: true, args: arg}
	}
	return piece{ctrl: ctrl, min: 1, fixed: true, args: arg}
}

func reconsumer(rt *rapid.T) string {
	return []string{"~a", "~s", "~:A", "~*"}[rapid.IntRange(0, 3).Draw(rt, "reconsume")]
}

// ---------------------------------------------------------------- blocks

type ctx struct {
	depth int  // block nesting so far
	own   bool // the sequence starts its own argument list (absolute moves are meaningful)
	caret bool // ~^ may be placed directly in this sequence
}

func pCase(rt *rapid.T, c ctx) piece {
	k := rapid.IntRange(0, 3).Draw(rt, "case-mods")
	body := genSeq(rt, ctx{depth: c.depth + 1}, rapid.IntRange(1, 3).Draw(rt, "case-n")).piece()
	body.ctrl = "~" + mods(rt, k == 1 || k == 3, k >= 2) + "(" + body.ctrl + "~)"
	return body
}

func pIndirect(rt *rapid.T, c ctx) piece {
	if rapid.Bool().Draw(rt, "indirect-at") {
		inner := genSeq(rt, ctx{depth: c.depth + 1}, rapid.IntRange(1, 3).Draw(rt, "indirect-n"))
		n, f := inner.min()
		return piece{ctrl: "~@?", min: n + 1, fixed: f, args: func(rt *rapid.T) []Arg {
			return append([]Arg{reffmt.Str(inner.ctrl())}, inner.gen(rt, false)...)
		}}
	}
	inner := genSeq(rt, ctx{depth: c.depth + 1, own: true, caret: true}, rapid.IntRange(1, 3).Draw(rt, "indirect-n"))
	return piece{ctrl: "~?", min: 2, fixed: true, args: func(rt *rapid.T) []Arg {
		l := inner.gen(rt, true)
		if len(l) == 0 {
			return []Arg{reffmt.Str(inner.ctrl()), reffmt.Nil()}
		}
		return []Arg{reffmt.Str(inner.ctrl()), reffmt.List(l...)}
	}}
}

func genSelector(rt *rapid.T, nc int) *big.Int {
	switch rapid.IntRange(0, 9).Draw(rt, "sel-kind") {
	case 0:
		return big.NewInt(-1)
	case 1:
		return big.NewInt(int64(nc + rapid.IntRange(0, 3).Draw(rt, "sel-over")))
	case 2:
		return genInt(rt, "sel-any")
	}
	return big.NewInt(int64(rapid.IntRange(0, nc-1).Draw(rt, "sel")))
}

func pCond(rt *rapid.T, c ctx) piece {
	sub := ctx{depth: c.depth + 1}
	clause := func() seq { return genSeq(rt, sub, rapid.IntRange(0, 2).Draw(rt, "clause-n")) }
	form := rapid.IntRange(0, 5).Draw(rt, "cond-form")
	switch form {
	case 4: // ~:[
		alt, cons := clause(), clause()
		ctrl := "~" + ":[" + alt.ctrl() + "~;" + cons.ctrl() + "~]"
		return piece{ctrl: ctrl, min: 1, args: func(rt *rapid.T) []Arg {
			if rapid.Bool().Draw(rt, "cond-nil") {
				return append([]Arg{reffmt.Nil()}, alt.gen(rt, false)...)
			}
			return append([]Arg{genNonNil(rt, "cond-true")}, cons.gen(rt, false)...)
		}}
	case 5: // ~@[
		rest := clause()
		first := []string{"~a", "~s", "~5a"}[rapid.IntRange(0, 2).Draw(rt, "cond-at-first")]
		ctrl := "~@[" + genLit(rt).ctrl + first + rest.ctrl() + "~]"
		return piece{ctrl: ctrl, min: 1, args: func(rt *rapid.T) []Arg {
			if rapid.IntRange(0, 2).Draw(rt, "cond-at-nil") == 0 {
				return []Arg{reffmt.Nil()}
			}
			return append([]Arg{genNonNil(rt, "cond-at-arg")}, rest.gen(rt, false)...)
		}}
	}
	nc := rapid.IntRange(1, 4).Draw(rt, "cond-nc")
	def := nc >= 2 && rapid.Bool().Draw(rt, "cond-default")
	clauses := make([]seq, nc)
	for i := range clauses {
		if form == 3 {
			clauses[i] = seq{items: []piece{genLit(rt)}}
			if rapid.IntRange(0, 2).Draw(rt, "hash-clause-dir") == 0 {
				clauses[i].items = append(clauses[i].items, lit("~%"))
			}
		} else {
			clauses[i] = clause()
		}
	}
	var b strings.Builder
	for i, cl := range clauses {
		if i > 0 {
			if def && i == nc-1 {
				b.WriteString("~:;")
			} else {
				b.WriteString("~;")
			}
		}
		b.WriteString(cl.ctrl())
	}
	body := "[" + b.String() + "~]"
	pick := func(sel *big.Int) *seq {
		n := nc
		if def {
			n--
		}
		if sel.Sign() >= 0 && sel.Cmp(big.NewInt(int64(n))) < 0 {
			return &clauses[sel.Int64()]
		}
		if def {
			return &clauses[nc-1]
		}
		return nil
	}
	switch form {
	case 1: // literal selector
		sel := big.NewInt(int64(rapid.IntRange(-1, nc+1).Draw(rt, "cond-lit")))
		ch := pick(sel)
		if ch == nil {
			return lit("~" + sel.String() + body)
		}
		p := ch.piece()
		p.ctrl = "~" + sel.String() + body
		return p
	case 3: // ~#[
		return lit("~#" + body)
	}
	ctrl := "~" + body
	if form == 2 {
		ctrl = "~" + vname(rt) + body
	}
	return piece{ctrl: ctrl, min: 1, args: func(rt *rapid.T) []Arg {
		sel := genSelector(rt, nc)
		if form == 2 && (!sel.IsInt64() || sel.Int64() > 1000 || sel.Int64() < -1000) {
			sel = big.NewInt(int64(nc))
		}
		out := []Arg{reffmt.Int(sel)}
		if ch := pick(sel); ch != nil {
			out = append(out, ch.gen(rt, false)...)
		}
		return out
	}}
}

// iterBody makes a body that consumes at least one argument per iteration.
func iterBody(rt *rapid.T, c ctx, ownPerStep bool) seq {
	body := genSeq(rt, ctx{depth: c.depth + 1, own: ownPerStep, caret: true}, rapid.IntRange(1, 3).Draw(rt, "iter-n"))
	if n, _ := body.min(); n == 0 {
		body.items = append([]piece{lit("~a")}, body.items...)
		body.items[0].min = 1
		body.items[0].args = func(rt *rapid.T) []Arg { return []Arg{genAny(rt, "iter-fill", 1)} }
	}
	return body
}

func iterMax(rt *rapid.T) (params, bool) {
	var ps params
	if rapid.IntRange(0, 2).Draw(rt, "iter-max") == 0 {
		ps.num(rt, "max", 0, 3, true, true)
		return ps, true
	}
	return ps, false
}

func closeIter(rt *rapid.T) string {
	if rapid.IntRange(0, 3).Draw(rt, "iter-once") == 0 {
		return "~:}"
	}
	return "~}"
}

func listOf(l []Arg) Arg {
	if len(l) == 0 {
		return reffmt.Nil()
	}
	return reffmt.List(l...)
}

// pIter is ~{ or ~:{ (the forms that take one list argument).
func pIter(rt *rapid.T, c ctx) piece {
	if rapid.IntRange(0, 7).Draw(rt, "iter-once-empty") == 0 {
		// ~:} runs a body once although the list is empty: the body must not need arguments
		return piece{ctrl: "~" + mods(rt, rapid.Bool().Draw(rt, "iter-colon"), false) + "{" + genLit(rt).ctrl + "~:}", min: 1, fixed: true,
			args: func(rt *rapid.T) []Arg { return []Arg{reffmt.Nil()} }}
	}
	colon := rapid.Bool().Draw(rt, "iter-colon")
	body := iterBody(rt, c, colon)
	ps, _ := iterMax(rt)
	cl := closeIter(rt)
	ctrl := "~" + ps.text(rt) + mods(rt, colon, false) + "{" + body.ctrl() + cl
	least := 0
	if cl == "~:}" {
		least = 1
	}
	return piece{ctrl: ctrl, min: len(ps.pre) + 1, fixed: true, args: func(rt *rapid.T) []Arg {
		k := rapid.IntRange(least, 3).Draw(rt, "iterations")
		var l []Arg
		for i := 0; i < k; i++ {
			if colon {
				l = append(l, listOf(body.gen(rt, true)))
			} else {
				l = append(l, body.gen(rt, i == k-1)...)
			}
		}
		return append(ps.args(rt), listOf(l))
	}}
}

// pIterRest is ~@{ or ~:@{: it takes all remaining arguments and therefore ends a top-level control.
func pIterRest(rt *rapid.T) piece {
	colon := rapid.Bool().Draw(rt, "iter-colon")
	body := iterBody(rt, ctx{}, colon)
	ps, _ := iterMax(rt)
	cl := closeIter(rt)
	ctrl := "~" + ps.text(rt) + mods(rt, colon, true) + "{" + body.ctrl() + cl
	least := 0
	if cl == "~:}" {
		least = 1
	}
	return piece{ctrl: ctrl, args: func(rt *rapid.T) []Arg {
		k := rapid.IntRange(least, 3).Draw(rt, "iterations")
		l := ps.args(rt)
		for i := 0; i < k; i++ {
			if colon {
				l = append(l, listOf(body.gen(rt, true)))
			} else {
				l = append(l, body.gen(rt, i == k-1)...)
			}
		}
		return l
	}}
}

// ---------------------------------------------------------------- sequences

func genPiece(rt *rapid.T, c ctx) piece {
	hi := 17
	if c.depth >= 2 {
		hi = 13 // no further blocks
	}
	switch rapid.IntRange(0, hi).Draw(rt, "piece") {
	case 0, 1:
		return genLit(rt)
	case 2, 3:
		return pA(rt)
	case 4, 5, 6:
		return pInt(rt)
	case 7:
		return pSpell(rt)
	case 8:
		return pC(rt)
	case 9, 10:
		return pCount(rt)
	case 11:
		return pT(rt)
	case 12:
		return pP(rt)
	case 13:
		return pIndirect(rt, c)
	case 14:
		return pCase(rt, c)
	case 15:
		return pCond(rt, c)
	}
	return pIter(rt, c)
}

func genSeq(rt *rapid.T, c ctx, n int) seq {
	var s seq
	for i := 0; i < n; i++ {
		consumed, fixed := s.min()
		switch k := rapid.IntRange(0, 19).Draw(rt, "seq-item"); {
		case k == 0: // skip forward over n arguments
			m := rapid.IntRange(0, 3).Draw(rt, "skip")
			txt := "~" + strconv.Itoa(m) + "*"
			if m == 1 && rapid.Bool().Draw(rt, "skip-default") {
				txt = "~*"
			}
			s.items = append(s.items, piece{ctrl: txt, min: m, fixed: true, args: func(rt *rapid.T) []Arg {
				out := make([]Arg, m)
				for i := range out {
					out[i] = genAny(rt, "skipped", 1)
				}
				return out
			}})
		case k == 1 && consumed >= 1: // back up and go over the same arguments again
			m := rapid.IntRange(1, min(consumed, 3)).Draw(rt, "back")
			txt := "~" + strconv.Itoa(m) + ":*"
			if m == 1 && rapid.Bool().Draw(rt, "back-default") {
				txt = "~:*"
			}
			for j := 0; j < m; j++ {
				txt += reconsumer(rt)
			}
			s.items = append(s.items, lit(txt))
		case k == 2 && c.own && fixed: // absolute
			m := rapid.IntRange(0, consumed).Draw(rt, "goto")
			txt := "~" + strconv.Itoa(m) + "@*"
			if m == 0 && rapid.Bool().Draw(rt, "goto-default") {
				txt = "~@*"
			}
			if consumed-m > 3 {
				txt += "~" + strconv.Itoa(consumed-m) + "*"
			} else {
				for j := m; j < consumed; j++ {
					txt += reconsumer(rt)
				}
			}
			s.items = append(s.items, lit(txt))
		case k == 3 && c.caret && i > 0:
			s.items = append(s.items, piece{ctrl: "~^", args: noArgs, fixed: true, caret: true})
		default:
			s.items = append(s.items, genPiece(rt, c))
		}
	}
	return s
}

// ---------------------------------------------------------------- top-level generators

// genBind: one case in four runs under bound printer control variables.
func genBind(rt *rapid.T) int {
	if rapid.IntRange(0, 3).Draw(rt, "bound") != 0 {
		return 0
	}
	return rapid.IntRange(1, len(printerBinds)-1).Draw(rt, "bind")
}

func genCompose(rt *rapid.T) Case {
	n := rapid.IntRange(1, 4).Draw(rt, "items")
	s := genSeq(rt, ctx{own: true, caret: true}, n)
	ctrl := s.ctrl()
	args := s.gen(rt, true)
	full := true
	for _, p := range s.items {
		if p.caret {
			full = false // the arguments may have been cut at a ~^
		}
	}
	if full && rapid.IntRange(0, 7).Draw(rt, "rest-iteration") == 0 {
		p := pIterRest(rt)
		ctrl += p.ctrl
		args = append(args, p.args(rt)...)
	}
	return Case{Ctrl: ctrl, Args: args, Bind: genBind(rt)}
}

func genInteger(rt *rapid.T) Case {
	p := pInt(rt)
	ctrl := p.ctrl
	if rapid.IntRange(0, 3).Draw(rt, "framed") == 0 {
		ctrl = "[" + ctrl + "]"
	}
	return Case{Ctrl: ctrl, Args: p.args(rt), Bind: genBind(rt)}
}

// genEnglishInt favours numbers whose spelling exercises the group logic: powers of ten and their
// neighbours, digit strings with many zero groups, and arbitrary numbers below 10^66.
func genEnglishInt(rt *rapid.T) *big.Int {
	v := new(big.Int)
	switch rapid.IntRange(0, 5).Draw(rt, "eng-kind") {
	case 0:
		v.Exp(big.NewInt(10), big.NewInt(int64(rapid.IntRange(0, 65).Draw(rt, "eng-pow"))), nil)
		v.Mul(v, big.NewInt(int64(rapid.IntRange(1, 9).Draw(rt, "eng-lead"))))
		v.Add(v, big.NewInt(int64(rapid.IntRange(-1, 1).Draw(rt, "eng-off"))))
	case 1, 2:
		groups := rapid.IntRange(1, 22).Draw(rt, "eng-groups")
		for g := 0; g < groups; g++ {
			v.Mul(v, big.NewInt(1000))
			if rapid.IntRange(0, 2).Draw(rt, "eng-zero-group") > 0 {
				gv := rapid.SampledFrom([]int{1, 7, 10, 11, 12, 19, 20, 21, 40, 99, 100, 101, 110, 119, 300, 512, 999}).Draw(rt, "eng-group")
				if rapid.Bool().Draw(rt, "eng-group-any") {
					gv = rapid.IntRange(0, 999).Draw(rt, "eng-group-v")
				}
				v.Add(v, big.NewInt(int64(gv)))
			}
		}
	case 3:
		v.SetInt64(int64(rapid.IntRange(0, 1000000).Draw(rt, "eng-small")))
	default:
		digits := rapid.IntRange(1, 66).Draw(rt, "eng-digits")
		var b strings.Builder
		for i := 0; i < digits; i++ {
			b.WriteByte(byte('0' + rapid.IntRange(0, 9).Draw(rt, "eng-d")))
		}
		v.SetString(b.String(), 10)
	}
	if v.CmpAbs(tenPow66) >= 0 {
		v.SetInt64(65)
	}
	if rapid.IntRange(0, 5).Draw(rt, "eng-neg") == 0 {
		v.Neg(v)
	}
	return v
}

func genEnglish(rt *rapid.T) Case {
	ctrl := "~" + mods(rt, rapid.Bool().Draw(rt, "ordinal"), false) + dch(rt, 'R')
	switch rapid.IntRange(0, 5).Draw(rt, "eng-frame") {
	case 0:
		ctrl = "~@(" + ctrl + "~)"
	case 1:
		ctrl = ctrl + " item~:P" // no hyphen or comma of its own
	}
	return Case{Ctrl: ctrl, Args: []Arg{reffmt.Int(genEnglishInt(rt))}, Eng: true}
}
